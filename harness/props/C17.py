import os, shutil, time, pickle, subprocess, sys, warnings
from pathlib import Path
from harness.props import base
from harness import gens, common, preds
import parso
from parso import cache as pcache

LEVEL = 'proof'
TECHNIQUE = ('Coq theorem on a crash-outcome model of the disk entry (load is Hit or Miss for ANY behaviour of the unpickler on non-intact bytes; '
             'save repairs) + fault enumeration on real cache files (every truncation offset, corruptions, directory states, concurrent processes)')
EXPLANATION = ('CacheCrash.v: disk entry in {absent, intact, torn, garbage}, unpickle is an oracle constrained only on intact bytes; theorems '
               'load_total / self_repair / cleanup_keeps_recent. The implementation is driven through every truncation offset and a corruption set of '
               'real pickles, directory states and leftover files, and two to four processes saving and loading one entry; the outcome class must '
               'match the model (hit with the current tree or miss followed by repair, never an exception).')
LEVEL_TEXT = EXPLANATION
ASSUMPTIONS = ['a read-only directory is simulated by making open()/makedirs() raise PermissionError for that directory (the sandbox runs as root)',
               'an intact pickle unpickles to the object that was saved (pickle itself is an oracle)']

MODULES = ['x = 1\n', 'def f(a, b=2):\n    return a\n\nclass C:\n    pass\n', 'if x:\n  foo(\nprint(f"{y!r}")\n']


def setup(root):
    shutil.rmtree(root, ignore_errors=True)
    os.makedirs(root)
    return Path(root) / 'cache'


DIFF = [False]      # also ask for the incremental parser (cache=True, diff_cache=True): it looks at the memory entry the load left behind


SLOW = [0]


def parse_cached(g, path, cdir):
    # a damaged pickle can make pickle.load itself run for minutes (a flipped length field); the property says nothing about time, so such a
    # state is counted (coverage: slow_states) and skipped instead of stalling the check
    with warnings.catch_warnings():
        warnings.simplefilter('ignore')
        with common.time_limit(15):
            if DIFF[0]:
                return g.parse(path=path, cache=True, diff_cache=True, cache_path=cdir)
            return g.parse(path=path, cache=True, cache_path=cdir)


def check_state(ctx, g, path, code, cdir, ppath, name, fresh_sig, detail):
    """the disk holds `name`; memory is empty; parse must succeed with the current tree and repair the entry"""
    pcache.parser_cache.clear()
    ctx.count('crash-states')
    try:
        m = parse_cached(g, path, cdir)
    except common.CaseTimeout:
        SLOW[0] += 1
        ctx.cov['slow_states'] = SLOW[0]
        return False
    except Exception as e:
        return ctx.violation('C17:parse-raises-on-%s:%s' % (name, type(e).__name__),
                             dict(kind='faults', state=name, detail=detail, exception=preds.crash_sig(e), module=code))
    if preds.sig_tree(m) != fresh_sig:
        return ctx.violation('C17:wrong-tree-on-%s' % name, dict(kind='faults', state=name, detail=detail, module=code))
    # self repair: the entry on disk is intact again and holds the current tree
    try:
        with open(ppath, 'rb') as f:
            item = pickle.load(f)
        if item.node.get_code() != code:
            return ctx.violation('C17:entry-not-repaired-on-%s' % name, dict(kind='faults', state=name, detail=detail, module=code))
    except Exception as e:
        return ctx.violation('C17:entry-not-repaired-on-%s' % name, dict(kind='faults', state=name, detail=detail, module=code, exception=repr(e)))
    pcache.parser_cache.clear()
    try:
        m2 = parse_cached(g, path, cdir)
        if preds.sig_tree(m2) != fresh_sig:
            return ctx.violation('C17:wrong-tree-after-repair-on-%s' % name, dict(kind='faults', state=name, detail=detail, module=code))
    except Exception as e:
        return ctx.violation('C17:parse-raises-after-repair-on-%s' % name, dict(kind='faults', state=name, detail=detail, exception=preds.crash_sig(e)))
    return False


WORKER = r'''
import sys, os, random, warnings
sys.path.insert(0, '/repo')
import parso
from parso import cache as pcache
from pathlib import Path
path, cdir, seed, n = sys.argv[1], Path(sys.argv[2]), int(sys.argv[3]), int(sys.argv[4])
r = random.Random(seed)
g = parso.load_grammar(version='3.10')
warnings.simplefilter('ignore')
for i in range(n):
    pcache.parser_cache.clear()
    if r.random() < 0.3:
        k = r.randint(0, 5)
        tmp = path + '.%d.tmp' % os.getpid()
        with open(tmp, 'w') as f:
            f.write('x = %d\n' % k + 'y = [1, 2, 3]\n' * (k * 40))
        os.replace(tmp, path)
    try:
        m = g.parse(path=path, cache=True, cache_path=cdir)
    except Exception as e:
        import traceback
        print('EXC', type(e).__name__, traceback.format_exc().strip().split('\n')[-3:])
        sys.exit(3)
    code = m.get_code()
    if not code.startswith('x = ') or code.count('y = [1, 2, 3]\n') != int(code[4]) * 40:
        print('BADTREE', repr(code[:40])); sys.exit(4)
print('OK')
'''


def races(ctx, g, root):
    """what a second process can do between two file operations of this one"""
    real_os = pcache.os
    path = os.path.join(root, 'm0.py')
    code = open(path).read()
    fresh_sig = preds.sig_tree(g.parse(code))
    # (a) the version directory is created by somebody else after the existence test
    cdir = Path(root) / 'cache-race-a'

    class RaceMkdir:
        def __getattr__(self, name):
            real = getattr(real_os, name)
            if name == 'makedirs':
                def racing(p, *a, **k):
                    if not real_os.path.exists(p):
                        real_os.makedirs(p)                  # the other process wins
                    return real(p, *a, **k)                    # ... and ours finds the directory in place
                return racing
            return real
    pcache.os = RaceMkdir()
    try:
        pcache.parser_cache.clear()
        ctx.count('races')
        try:
            m = parse_cached(g, path, cdir)
            if preds.sig_tree(m) != fresh_sig:
                ctx.violation('C17:wrong-tree-on-directory-created-concurrently', dict(kind='faults', state='makedirs-race', module=code))
        except Exception as e:
            ctx.violation('C17:parse-raises-on-directory-created-concurrently:%s' % type(e).__name__,
                          dict(kind='faults', state='makedirs-race', exception=preds.crash_sig(e), module=code))
    finally:
        pcache.os = real_os
    # (b) a file of the cache directory disappears between scandir() and stat() while this process cleans up
    cdir = Path(root) / 'cache-race-b'
    pcache.parser_cache.clear()
    parse_cached(g, path, cdir)
    vdir = os.path.dirname(pcache._get_hashed_path(g._hashed, Path(path), cache_path=cdir))
    ghost = os.path.join(vdir, 'other-process.12345.tmp')
    open(ghost, 'wb').write(b'x')

    class Vanishing:
        def __init__(self, e):
            self.e = e
            self.path, self.name = e.path, e.name

        def stat(self, *a, **k):
            if self.name.endswith('.tmp'):
                if real_os.path.exists(self.path):
                    real_os.remove(self.path)
                raise FileNotFoundError(2, 'No such file or directory', self.path)
            return self.e.stat(*a, **k)

        def __getattr__(self, name):
            return getattr(self.e, name)

    class RaceScan:
        def __getattr__(self, name):
            real = getattr(real_os, name)
            if name == 'scandir':
                return lambda p: [Vanishing(e) for e in real(p)]
            return real
    lock = pcache._get_cache_clear_lock_path(cache_path=cdir)
    if os.path.exists(lock):
        old = time.time() - 2 * 86400
        os.utime(lock, (old, old))
    pcache.os = RaceScan()
    try:
        pcache.parser_cache.clear()
        os.utime(path, None)                                   # the source is newer than the entry: this parse saves and then cleans up
        ctx.count('races')
        try:
            m = parse_cached(g, path, cdir)
            if preds.sig_tree(m) != fresh_sig:
                ctx.violation('C17:wrong-tree-on-file-vanishing-during-cleanup', dict(kind='faults', state='cleanup-stat-race', module=code))
        except Exception as e:
            ctx.violation('C17:parse-raises-on-file-vanishing-during-cleanup:%s' % type(e).__name__,
                          dict(kind='faults', state='cleanup-stat-race', exception=preds.crash_sig(e), module=code))
    finally:
        pcache.os = real_os


def old_sources(ctx, g, root):
    """a source file that was last modified long ago (an installed library), parsed into a cache directory whose clean-up is due (no lock file
    yet, or an old one): the entry that this very parse saves is in use - it must still be there afterwards, also when the same happens again"""
    for days in (45, 400):
        for lock_state in ('no-lock', 'old-lock'):
            path = os.path.join(root, 'old%d.py' % days)
            code = 'v = %d\n' % days
            with open(path, 'w') as f:
                f.write(code)
            t = time.time() - days * 86400
            os.utime(path, (t, t))
            cdir = Path(root) / ('cache-old-%d-%s' % (days, lock_state))
            if lock_state == 'old-lock':
                pcache.parser_cache.clear()
                parse_cached(g, os.path.join(root, 'm0.py'), cdir)
                lock = pcache._get_cache_clear_lock_path(cache_path=cdir)
                if os.path.exists(lock):
                    o = time.time() - 3 * 86400
                    os.utime(lock, (o, o))
            pcache.parser_cache.clear()
            ctx.count('old-sources')
            try:
                parse_cached(g, path, cdir)
            except Exception as e:
                ctx.violation('C17:parse-raises-on-old-source:%s' % type(e).__name__, dict(kind='faults', state='old-source-%d-days+%s' % (days, lock_state), exception=preds.crash_sig(e)))
                continue
            ppath = pcache._get_hashed_path(g._hashed, Path(path), cache_path=cdir)
            ok = False
            try:
                with open(ppath, 'rb') as f:
                    ok = pickle.load(f).node.get_code() == code
            except Exception:
                pass
            if not ok:
                ctx.violation('C17:cleanup-deleted-entry-just-saved', dict(kind='faults', state='old-source-%d-days+%s' % (days, lock_state), entry=str(ppath)))


def cleanup_read_faults(ctx, g, root):
    """the reading operations of the clean-up fail while it is due (the cache directory or a version directory was removed by another process between the
    existence test and the listing, a directory or the lock file cannot be read): the parse that triggered the clean-up succeeds all the same.
    Faults: listdir / scandir raise FileNotFoundError or PermissionError, getmtime / stat of the lock file raise PermissionError or EIO."""
    real_os = pcache.os
    path = os.path.join(root, 'm0.py')
    code = open(path).read()
    fresh_sig = preds.sig_tree(g.parse(code))
    import errno as _errno
    excs = (('FileNotFoundError', lambda q: FileNotFoundError(_errno.ENOENT, 'No such file or directory', str(q))),
            ('PermissionError', lambda q: PermissionError(_errno.EACCES, 'Permission denied', str(q))),
            ('EIO', lambda q: OSError(_errno.EIO, 'Input/output error', str(q))))
    for op in ('listdir', 'scandir', 'getmtime', 'stat'):
        for ename, mk in excs:
            if op in ('getmtime', 'stat') and ename == 'FileNotFoundError':
                continue            # a missing lock file is the ordinary first-run case
            state = 'cleanup-%s-raises-%s' % (op, ename)
            cdir = Path(root) / ('cache-' + state)
            pcache.parser_cache.clear()
            parse_cached(g, os.path.join(root, 'm1.py'), cdir)         # creates the directory and the lock file
            lock = pcache._get_cache_clear_lock_path(cache_path=cdir)
            if os.path.exists(lock):
                o = time.time() - 3 * 86400
                os.utime(lock, (o, o))                                 # the daily clean-up is due

            def raiser(q, *a, **k):
                raise mk(q)

            class FaultyPath:
                def __getattr__(self, name):
                    if name == 'getmtime' and op in ('getmtime', 'stat'):
                        def guarded(q, *a, **k):
                            if str(q).endswith('PARSO-CACHE-LOCK'):
                                raise mk(q)
                            return real_os.path.getmtime(q, *a, **k)
                        return guarded
                    return getattr(real_os.path, name)

            class FaultyOs:
                def __getattr__(self, name):
                    if name == op and op in ('listdir', 'scandir'):
                        return raiser
                    if name == 'stat' and op == 'stat':
                        def guarded(q, *a, **k):
                            if str(q).endswith('PARSO-CACHE-LOCK'):
                                raise mk(q)
                            return real_os.stat(q, *a, **k)
                        return guarded
                    if name == 'path':
                        return FaultyPath()
                    return getattr(real_os, name)
            pcache.os = FaultyOs()
            try:
                pcache.parser_cache.clear()
                ctx.count('crash-states')
                try:
                    m = parse_cached(g, path, cdir)
                    if preds.sig_tree(m) != fresh_sig:
                        ctx.violation('C17:wrong-tree-on-%s' % state, dict(kind='faults', state=state, module=code))
                except Exception as e:
                    ctx.violation('C17:parse-raises-on-%s:%s' % (state, type(e).__name__),
                                  dict(kind='faults', state=state, exception=preds.crash_sig(e), module=code))
            finally:
                pcache.os = real_os


def unwritable_everything(ctx, g, root):
    """a cache root that cannot be written and does not hold the version directory yet (load side: the directory cannot be created), and a lock file
    that cannot be touched although saving works (it belongs to somebody else): parsing succeeds all the same"""
    real_os = pcache.os
    path = os.path.join(root, 'm0.py')
    code = open(path).read()
    fresh_sig = preds.sig_tree(g.parse(code))

    def deny(names, only=None):
        class Deny:
            def __getattr__(self, name):
                real = getattr(real_os, name)
                if name in names:
                    def guarded(p, *a, **k):
                        if only is None or only(str(p)):
                            raise PermissionError(13, 'Permission denied', str(p))
                        return real(p, *a, **k)
                    return guarded
                return real
        return Deny()
    for state, mk in (('read-only-root-without-version-directory', lambda cdir: deny(('makedirs', 'mkdir'))),
                      ('lock-file-of-another-user', lambda cdir: deny(('utime',), only=lambda p: p.endswith('PARSO-CACHE-LOCK')))):
        cdir = Path(root) / ('cache-' + state)
        if state.startswith('lock'):
            pcache.parser_cache.clear()
            parse_cached(g, os.path.join(root, 'm1.py'), cdir)         # creates the directory and the lock file
            lock = pcache._get_cache_clear_lock_path(cache_path=cdir)
            if os.path.exists(lock):
                o = time.time() - 3 * 86400
                os.utime(lock, (o, o))
        else:
            os.makedirs(cdir, exist_ok=True)
        pcache.os = mk(cdir)
        try:
            pcache.parser_cache.clear()
            ctx.count('crash-states')
            try:
                m = parse_cached(g, path, cdir)
                if preds.sig_tree(m) != fresh_sig:
                    ctx.violation('C17:wrong-tree-on-%s' % state, dict(kind='faults', state=state, module=code))
            except Exception as e:
                ctx.violation('C17:parse-raises-on-%s:%s' % (state, type(e).__name__), dict(kind='faults', state=state, exception=preds.crash_sig(e), module=code))
        finally:
            pcache.os = real_os


def run(ctx, b, drv):
    # a flipped bit in a length field makes pickle.load ask for gigabytes (and spend minutes filling them, inside C code that no signal
    # interrupts): with an address-space limit the allocation fails at once with MemoryError, which the loader treats like any other damage
    import resource
    soft, hard = resource.getrlimit(resource.RLIMIT_AS)
    resource.setrlimit(resource.RLIMIT_AS, (3 << 30, hard))
    # an allocation refused in the middle of unpickling a damaged file can leave a bytearray of the unpickler with exported buffers; CPython reports that
    # through the unraisable hook when the object is freed ("SystemError: deallocated bytearray object has exported buffers") - noise of the interpreter about
    # its own garbage; it is counted, not printed
    import sys as _sys
    old_hook = _sys.unraisablehook
    seen = []
    _sys.unraisablehook = lambda u: seen.append(type(u.exc_value).__name__)
    # (CPython's bytearray deallocator reports it with PyErr_Print, i.e. through sys.excepthook, from inside pickle.load)
    old_excepthook = _sys.excepthook

    def quiet_excepthook(t, v, tb):
        if t is SystemError and 'deallocated bytearray' in str(v):
            seen.append('SystemError')
        else:
            old_excepthook(t, v, tb)
    _sys.excepthook = quiet_excepthook
    try:
        return run_limited(ctx, b, drv)
    finally:
        import gc as _gc
        _gc.collect()                       # free that garbage while the quiet hook is in place (it stays in place: the process only reports and exits after this)
        ctx.cov['interpreter_unraisable_during_unpickling'] = len(seen)
        resource.setrlimit(resource.RLIMIT_AS, (soft, hard))


def run_limited(ctx, b, drv):
    pend = base.Pending(ctx)
    base.obligations(ctx, b, pend, ['CacheCrash.v', 'Properties/C17.v'])
    root = os.path.join(common.WORK, 'c17-%d' % os.getpid())
    g = parso.load_grammar(version='3.10')
    try:
        cdir = setup(root)
        for mi, code in enumerate(MODULES):
            path = os.path.join(root, 'm%d.py' % mi)
            with open(path, 'w') as f:
                f.write(code)
            os.utime(path, (time.time() - 50, time.time() - 50))
            fresh_sig = preds.sig_tree(g.parse(code))
            pcache.parser_cache.clear()
            parse_cached(g, path, cdir)
            ppath = pcache._get_hashed_path(g._hashed, Path(path), cache_path=cdir)
            orig = open(ppath, 'rb').read()
            n = len(orig)
            if ctx.tier == 'thorough' or n <= 700:
                offsets = list(range(n))
            else:
                r = gens.rng(ctx.seed, 'c17-off', mi)
                offsets = sorted(set(list(range(0, 96)) + list(range(n - 64, n)) + r.sample(range(n), 250)))
            for k in offsets:
                with open(ppath, 'wb') as f:
                    f.write(orig[:k])
                ctx.nontrivial(('trunc', mi, k))
                if check_state(ctx, g, path, code, cdir, ppath, 'truncated-pickle', fresh_sig, dict(offset=k, size=n)):
                    break
            r = gens.rng(ctx.seed, 'c17-corrupt', mi)
            corrupt = [('empty-file', b''), ('garbage', bytes(r.randrange(256) for _ in range(200))),
                       ('zero-filled', b'\0' * n), ('pickle-of-other-object', pickle.dumps({'a': 1})),
                       ('pickle-of-int', pickle.dumps(42)), ('text', b'not a pickle\n'),
                       ('pickle-of-none', b'N.'), ('pickle-of-str', pickle.dumps('x = 1\n')), ('pickle-of-list', pickle.dumps([1, 2])),
                       ('pickle-of-tuple', pickle.dumps((None, [], 0.0))), ('pickle-of-bool', pickle.dumps(True))]
            # (a well-formed pickle of a _NodeCacheItem with senseless fields is NOT in the list: no crash, full disk or concurrent writer of parso
            #  produces one, and the unchanged code does not promise anything about it - an earlier version of this list demanded that, a false alarm)
            corrupt = corrupt + [(nm + '+diff_cache', bs) for nm, bs in corrupt]
            for _ in range(40 if ctx.tier == 'quick' else 400):
                pos = r.randrange(n)
                bs = bytearray(orig)
                bs[pos] ^= 1 << r.randrange(8)
                corrupt.append(('bit-flip', bytes(bs)))
            for _ in range(10):
                k = r.randrange(1, n)
                other = pickle.dumps(pcache._NodeCacheItem(g.parse('zz = 0\n' * r.randint(1, 3)), ['zz'], time.time()), pickle.HIGHEST_PROTOCOL)
                corrupt.append(('partially-overwritten', other[:k] + orig[k:]))
            for name, bs in corrupt:
                with open(ppath, 'wb') as f:
                    f.write(bs)
                DIFF[0] = name.endswith('+diff_cache')
                ctx.nontrivial((name, mi, bs[:40]))
                if name in ('bit-flip', 'partially-overwritten'):
                    # may by chance still unpickle to a well-formed entry: only failures to parse count
                    pcache.parser_cache.clear()
                    ctx.count('crash-states')
                    try:
                        parse_cached(g, path, cdir)
                    except (RecursionError, common.CaseTimeout):
                        pass
                    except Exception as e:
                        ctx.violation('C17:parse-raises-on-%s:%s' % (name, type(e).__name__),
                                      dict(kind='faults', state=name, exception=preds.crash_sig(e), module=code, bytes=list(bs[:64])))
                    with open(ppath, 'wb') as f:
                        f.write(orig)
                else:
                    check_state(ctx, g, path, code, cdir, ppath, name, fresh_sig, {})
            DIFF[0] = False
            # directory states
            vdir = os.path.dirname(ppath)
            for junk in ('x.pkl.tmp', 'tmpabcd', os.path.basename(ppath) + '.tmp', '.lock'):
                open(os.path.join(vdir, junk), 'wb').write(b'junk')
            os.makedirs(os.path.join(vdir, 'subdir.pkl'), exist_ok=True)
            check_state(ctx, g, path, code, cdir, ppath, 'leftover-temporary-files', fresh_sig, {})
            try:
                pcache.clear_inactive_cache(cdir)
            except Exception as e:
                ctx.violation('C17:cleanup-raises-with-leftover-files:%s' % type(e).__name__, dict(kind='faults', exception=preds.crash_sig(e)))
            # a writer killed in the middle of a save leaves ITS temporary file behind: learn the names the implementation really
            # uses by watching one save, then plant leftovers under exactly these names (same process, same thread) and save again
            import builtins as _bi
            seen = []

            def rec_open(p, mode='r', *a, **k):
                if ('w' in mode or 'a' in mode or 'x' in mode) and str(p).startswith(str(cdir)):
                    seen.append(str(p))
                return _bi.open(p, mode, *a, **k)
            pcache.open = rec_open
            try:
                if os.path.exists(ppath):
                    os.remove(ppath)
                pcache.parser_cache.clear()
                parse_cached(g, path, cdir)
            except Exception as e:
                ctx.violation('C17:parse-raises-after-entry-removed:%s' % type(e).__name__, dict(kind='faults', exception=preds.crash_sig(e), module=code))
            finally:
                del pcache.open
            for tname in sorted(set(seen) - {str(ppath)}):
                for label, content in (('empty', b''), ('half', orig[:n // 2]), ('complete', orig), ('garbage', b'junk' * 10)):
                    with open(tname, 'wb') as f:
                        f.write(content)
                    if os.path.exists(ppath):
                        os.remove(ppath)
                    check_state(ctx, g, path, code, cdir, ppath, 'leftover-own-temporary-file-%s' % label, fresh_sig, {})
                    if os.path.exists(tname):
                        os.remove(tname)
            shutil.rmtree(vdir)
            check_state(ctx, g, path, code, cdir, ppath, 'missing-version-directory', fresh_sig, {})
            shutil.rmtree(cdir)
            check_state(ctx, g, path, code, cdir, ppath, 'missing-cache-directory', fresh_sig, {})
            # read-only directory (simulated): writes raise PermissionError
            import builtins
            real_open = builtins.open

            ERR = [lambda p: PermissionError(13, 'Permission denied', str(p)), 'read-only-directory']
            WRITE_LIMIT = [None]

            class ShortFile:
                # a file on a full disk: the first bytes go through, then write() fails
                def __init__(self, f, limit, p):
                    self.f, self.left, self.p = f, limit, p

                def write(self, b):
                    if len(b) > self.left:
                        self.f.write(b[:self.left])
                        self.left = 0
                        raise ERR[0](self.p)
                    self.left -= len(b)
                    return self.f.write(b)

                def __getattr__(self, name):
                    return getattr(self.f, name)

                def __enter__(self):
                    return self

                def __exit__(self, *a):
                    self.f.close()
                    return False

            def ro_open(p, mode='r', *a, **k):
                if ('w' in mode or 'a' in mode) and str(p).startswith(str(cdir)):
                    if WRITE_LIMIT[0] is not None:
                        return ShortFile(real_open(p, mode, *a, **k), WRITE_LIMIT[0], p)
                    raise ERR[0](p)
                return real_open(p, mode, *a, **k)
            # every way of changing the directory fails, not only opening a file for writing
            real_os = pcache.os

            class RoOs:
                def __getattr__(self, name):
                    real = getattr(real_os, name)
                    if name in ('remove', 'unlink', 'replace', 'rename', 'utime', 'makedirs', 'mkdir', 'rmdir', 'chmod'):
                        def guarded(p, *a, **k):
                            targets = [p] + [x for x in a[:1] if isinstance(x, (str, bytes, os.PathLike))]
                            if any(str(t).startswith(str(cdir)) for t in targets):
                                raise ERR[0](p)
                            return real(p, *a, **k)
                        return guarded
                    return real
            import errno as _errno
            FAULTS = [(lambda p: PermissionError(13, 'Permission denied', str(p)), 'read-only-directory', None),
                      (lambda p: OSError(_errno.ENOSPC, 'No space left on device', str(p)), 'full-disk', None),
                      (lambda p: OSError(_errno.ENOSPC, 'No space left on device', str(p)), 'full-disk-after-some-bytes', 17),
                      (lambda p: OSError(_errno.EROFS, 'Read-only file system', str(p)), 'read-only-file-system', None),
                      (lambda p: OSError(_errno.EDQUOT, 'Disk quota exceeded', str(p)), 'quota-exceeded', None),
                      (lambda p: OSError(_errno.EIO, 'Input/output error', str(p)), 'io-error', 0)]
            for (mk, fault_name, wlimit), (corrupt_name, content) in [(f_, c_) for f_ in FAULTS for c_ in
                                                                      (('truncated', orig[:n // 2]), ('empty', b''), ('garbage', b'\x80\x04junk' * 5), ('intact', orig))]:
                ERR[0], ERR[1], WRITE_LIMIT[0] = mk, fault_name, wlimit
                pcache.open = ro_open
                pcache.os = RoOs()
                try:
                    pcache.parser_cache.clear()
                    ctx.count('crash-states')
                    with open(ppath, 'wb') as f:
                        f.write(content)
                    try:
                        m = parse_cached(g, path, cdir)
                        if preds.sig_tree(m) != fresh_sig:
                            ctx.violation('C17:wrong-tree-on-%s' % fault_name, dict(kind='faults', state=fault_name + '+' + corrupt_name, module=code))
                    except Exception as e:
                        ctx.violation('C17:parse-raises-on-%s:%s' % (fault_name, type(e).__name__),
                                      dict(kind='faults', state=fault_name + '+' + corrupt_name, exception=preds.crash_sig(e), module=code))
                finally:
                    del pcache.open
                    pcache.os = real_os
        races(ctx, g, root)
        old_sources(ctx, g, root)
        unwritable_everything(ctx, g, root)
        cleanup_read_faults(ctx, g, root)
        # clean-up keeps entries in use
        cdir2 = Path(root) / 'cache2'
        now = time.time()
        paths = []
        for mi, code in enumerate(MODULES):
            path = os.path.join(root, 'm%d.py' % mi)
            pcache.parser_cache.clear()
            parse_cached(g, path, cdir2)
            paths.append(pcache._get_hashed_path(g._hashed, Path(path), cache_path=cdir2))
        limit = pcache._CACHED_FILE_MAXIMUM_SURVIVAL
        os.utime(paths[0], (now - limit - 1000, now - limit - 1000))      # inactive
        os.utime(paths[1], (now - limit + 3600, now - limit - 1000))      # used recently enough
        os.utime(paths[2], (now - 10, now - 10))
        lock = pcache._get_cache_clear_lock_path(cache_path=cdir2)
        if os.path.exists(lock):
            os.utime(lock, (now - 2 * 86400, now - 2 * 86400))
        pcache._remove_cache_and_update_lock(cache_path=cdir2)
        ctx.count('cleanup')
        for p, nm in ((paths[1], 'entry-used-within-limit'), (paths[2], 'fresh-entry')):
            okp = False
            try:
                with open(p, 'rb') as f:
                    pickle.load(f)
                okp = True
            except Exception:
                pass
            if not okp:
                ctx.violation('C17:cleanup-damaged-%s' % nm, dict(kind='faults', state='cleanup', path=p))
        if not os.path.exists(lock):
            ctx.violation('C17:cleanup-removed-lock-file', dict(kind='faults', state='cleanup'))
        # concurrent processes on one entry
        cdir3 = str(Path(root) / 'cache3')
        shared = os.path.join(root, 'shared.py')
        with open(shared, 'w') as f:
            f.write('x = 0\n')
        script = os.path.join(root, 'worker.py')
        with open(script, 'w') as f:
            f.write(WORKER)
        nproc = 4
        iters = 150 if ctx.tier == 'quick' else 1500
        procs = [subprocess.Popen([common.PY, script, shared, cdir3, str(ctx.seed * 10 + i), str(iters)], stdout=subprocess.PIPE,
                                  stderr=subprocess.PIPE, text=True, env=common.ENV) for i in range(nproc)]
        for i, p in enumerate(procs):
            out, err = p.communicate(timeout=600)
            ctx.count('concurrent-process-iterations', iters)
            ctx.nontrivial(('proc', i))
            if p.returncode != 0:
                ctx.violation('C17:concurrent-save-load:%s' % (out.split()[1] if out.startswith('EXC') else out.split()[0] if out else 'crash'),
                              dict(kind='schedule', processes=nproc, iterations=iters, output=out[-800:], stderr=err[-800:]))
        ctx.sample(dict(stream='crash', module=MODULES[1], states='every truncation offset; empty; garbage; zero fill; foreign pickles; bit flips; '
                        'partial overwrite; leftover temp files; missing dirs; read-only dir; clean-up with atimes; 4 concurrent processes'))
    finally:
        pcache.parser_cache.clear()
        shutil.rmtree(root, ignore_errors=True)
    pend.flush()
    ctx.cov['rule'] = ('fault enumeration: every truncation offset of the pickle (all offsets when <= 700 bytes or thorough; else first 96, last 64, 250 sampled), '
                       'corruption set, directory states, clean-up, 4 processes x iterations; non-trivial/distinct = distinct disk state')
    ctx.cov['exhaustive'] = False
