from harness.props import base
from harness import gens, streams, impl, preds, refpy
import parso

LEVEL = 'other'
TECHNIQUE = ('parse correspondence with the Gallina engine model (parso accepts exactly its grammar: C06/C08 obligations) + differential comparison with '
             'compile() of CPython 3.6-3.13 on standard-library, generated and mutated programs')
EXPLANATION = ('The oracle is CPython\'s compiler, which has no formal semantics in this sandbox (DESIGN.md section 9): C12_partial. Clause (a) reduces to '
               '"parso accepts exactly the language of its grammar file" (C06/C08, proof-backed table obligations re-checked here) plus the differential '
               'statement that the grammar file covers CPython; clause (b) is differential only. Programs accepted by the reference interpreter of version V '
               '(and, for (a), also by 3.8) must give no error node and no issue.')
LEVEL_TEXT = EXPLANATION
ASSUMPTIONS = ['3.14 is judged by the 3.13 interpreter']


def has_error_node(m):
    return any(n.type in ('error_node', 'error_leaf') for n in preds.iter_nodes(m))


def judge(v, code, in38):
    g = parso.load_grammar(version=v)
    try:
        m = g.parse(code)
        issues = list(g.iter_errors(m))
    except RecursionError:
        return None
    except Exception as e:
        return preds.crash_sig(e)
    err = has_error_node(m)
    if in38 and err:
        return 'C12a:error-node-in-program-accepted-by-cpython-%s-and-3.8' % ('V')
    if not err and issues:
        i = issues[0]
        return 'C12b:false-issue:%s' % i.message[:60]
    return None


def recheck(replay, text):
    v = replay['version']
    ok = refpy.run_ref('ref_compile.py', v, [text])[0]
    if not ok:
        return 'not-accepted'
    in38 = refpy.run_ref('ref_compile.py', '3.8', [text])[0]
    return judge(v, text, in38)


def run(ctx, b, drv):
    pend = base.Pending(ctx)
    base.obligations(ctx, b, pend, ['Engine.v'] + base.rules_files())
    base.mismatches(ctx, pend, streams.run_parse(ctx, base.scale(ctx, 800), drv, kinds=['valid', 'mutate', 'oneliner', 'semantic']), None)
    nfiles = 10 if ctx.tier == 'quick' else 150
    ngen = 200 if ctx.tier == 'quick' else 3000
    for v in streams.versions():
        r = gens.rng(ctx.seed, 'c12', v)
        srcs = list(refpy.stdlib_files(v, nfiles, r))
        for i in range(ngen):
            kind, code = gens.text_case(ctx.seed, 'c12-%s' % v, i, ['valid', 'mutate', 'semantic'])
            srcs.append(('gen:%s:%d' % (kind, i), code))
        for i in range(ngen):
            srcs.append(('derived:%d' % i, gens.derived(gens.rng(ctx.seed, 'derived-%s-%s' % ('C12', v), i), v)))
        # the near-miss / invalid / target-shape corpora: every program on every version in the thorough tier; in the quick tier the near-miss corpus on every version, a rotating ninth of the others per version
        vi = streams.versions().index(v)
        nsem = len(gens.SEMANTIC)       # the hand-written near-miss programs (among them the witnesses of the repaired defects) run on every version in every tier
        for ci, code in enumerate(gens.SEMANTIC + gens.INVALID + gens.TARGETS):
            if ctx.tier != 'quick' or ci < nsem or (ci + vi + int(ctx.seed or 0)) % 9 == 0:
                srcs.append(('corpus:%d' % ci, code))
        texts = [s for _, s in srcs]
        okv = refpy.run_ref('ref_compile.py', v, texts)
        ok38 = refpy.run_ref('ref_compile.py', '3.8', texts)
        acc = 0
        for (name, code), a, c38 in zip(srcs, okv, ok38):
            ctx.count('c12-programs')
            if not a:
                continue
            acc += 1
            ctx.nontrivial(('c12', v, code))
            sig = judge(v, code, c38)
            if sig:
                rp = dict(kind='input', version=v, source=name, input_text=code if len(code) < 5000 else None, observed=sig)
                if tuple(map(int, v.split('.'))) >= (3, 12):
                    rp['accepted_by_3_11'] = refpy.run_ref('ref_compile.py', '3.11', [code])[0]
                ctx.violation(sig, rp)
        ctx.cov.setdefault('accepted_by_reference', {})[v] = '%d of %d' % (acc, len(srcs))
    ctx.sample(dict(stream='c12', version=v, program=srcs[-1][1][:200]))
    pend.flush()
    ctx.cov['rule'] = ('per version: standard-library files + generated valid/mutated programs kept when compile() of the reference interpreter accepts them; '
                       'clause (a) additionally needs acceptance by CPython 3.8; distinct = distinct accepted program')
