import sys, os, threading, time, collections
from harness.props import base
from harness import gens, common, preds, writeset
import parso
from parso import grammar as pgrammar
from parso.python import tokenize as ptok
from parso.utils import parse_version_string

LEVEL = 'other'
TECHNIQUE = ('Coq theorem memo_linearizable on a step-interleaved model of the two memo tables + syntactic write-set obligation regenerated from '
             'the source + forced line-granular thread schedules on the implementation compared with sequential results and state fingerprints')
EXPLANATION = ('C18 is partially decided by proof: the only shared mutable state found by the regenerated write-set (module-level tables written inside '
               'functions, attributes of the shared Grammar object written outside __init__) must equal the allow-list {_loaded_grammars, '
               '_token_collection_cache, parser_cache, rule registries filled at import}; for the two memo tables the theorem C18_memo_linearizable '
               'shows every interleaving returns f(key). Determinism of the model pipeline is definitional. What no Gallina model can exhibit - '
               'CPython preemption below line granularity, aliasing into shared tables - is covered only by forced schedules (sys.settrace) on the '
               'implementation and by fingerprints of the grammar objects, tables and registries before/after.')
LEVEL_TEXT = EXPLANATION
ASSUMPTIONS = ['thread switches happen at line granularity (sys.settrace line events); aliasing of shared tables through locals is not analysed']

ALLOWED = [
    ('parso/cache.py:_set_cache_item', 'assign', 'parser_cache[key]'),
    ('parso/cache.py:_set_cache_item', 'call.setdefault', 'parser_cache'),
    ('parso/cache.py:clear_cache', 'call.clear', 'parser_cache'),
    ('parso/grammar.py:load_grammar', 'call.setdefault', '_loaded_grammars'),
    ('parso/normalizer.py:Normalizer.register_rule.decorator', 'call.setdefault', 'cls.rule_type_classes'),
    ('parso/normalizer.py:Normalizer.register_rule.decorator', 'call.setdefault', 'cls.rule_value_classes'),
    ('parso/python/tokenize.py:_get_token_collection', 'assign', '_token_collection_cache[tuple(version_info)]'),
]


class Sched:
    """deterministic line-granular scheduler: a thread only runs while the current schedule slot names it"""

    def __init__(self, n, schedule):
        self.lock = threading.Lock()
        self.events = [threading.Event() for _ in range(n)]
        self.schedule = schedule
        self.slot = 0
        self.left = schedule[0][1] if schedule else 0
        self.alive = set(range(n))
        self.switches = 0

    def current(self):
        while self.slot < len(self.schedule) and self.schedule[self.slot][0] not in self.alive:
            self.slot += 1
            if self.slot < len(self.schedule):
                self.left = self.schedule[self.slot][1]
        if self.slot >= len(self.schedule):
            return None
        return self.schedule[self.slot][0]

    def wake(self):
        cur = self.current()
        if cur is None:
            for e in self.events:
                e.set()
        else:
            self.events[cur].set()

    def tick(self, tid):
        t0 = time.time()
        while True:
            with self.lock:
                cur = self.current()
                if cur is None:
                    return
                if cur == tid:
                    self.left -= 1
                    if self.left <= 0:
                        self.slot += 1
                        self.switches += 1
                        if self.slot < len(self.schedule):
                            self.left = self.schedule[self.slot][1]
                        self.wake()
                    return
                ev = self.events[tid]
                ev.clear()
            ev.wait(5)
            if time.time() - t0 > 30:          # safety: never dead-lock the check
                with self.lock:
                    self.schedule = []
                    self.wake()
                return

    def finish(self, tid):
        with self.lock:
            self.alive.discard(tid)
            self.wake()

    def tracer(self, tid):
        def local(frame, event, arg):
            if event == 'line':
                self.tick(tid)
            return local

        def glob(frame, event, arg):
            if '/parso/' in frame.f_code.co_filename:
                return local
            return None
        return glob


def do_task(task):
    kind, v, text = task
    if kind == 'tokenize':
        return [(t.type.name, t.string, t.start_pos, t.prefix) for t in ptok.tokenize(text, version_info=parse_version_string(v))]
    g = parso.load_grammar(version=v)
    m = g.parse(text)
    if kind == 'parse':
        return preds.sig_tree(m)
    if kind == 'errors':
        # the listing first: it is the call under test (a walk that fails on deep nesting must still leave everything as it was)
        issues = [(i.code, i.message, i.start_pos, i.end_pos) for i in g.iter_errors(m)]
        return (preds.sig_tree(m), issues)
    raise ValueError(kind)


def load_order(ctx):
    """every shipped grammar file loaded by path (which builds it for the running interpreter's version) and then asked for by version; a newer and an
    older version loaded first: parse and issue listing of version-sensitive texts are what a process that loaded only that version gives"""
    from harness.props.C05 import VERSION_SENSITIVE
    vs = ['3.6', '3.7', '3.8', '3.9', '3.10', '3.11', '3.12', '3.13', '3.14']
    texts = VERSION_SENSITIVE[:8] + ['x = (a := 1)\n']
    for v in vs:
        base = []
        pgrammar._loaded_grammars.clear()
        ptok._token_collection_cache.clear()
        for t in texts:
            try:
                base.append(do_task(('errors', v, t)))
            except Exception as e:
                base.append(preds.crash_sig(e))
        for how in ('path', 'newest-first', 'oldest-first'):
            pgrammar._loaded_grammars.clear()
            ptok._token_collection_cache.clear()
            try:
                if how == 'path':
                    parso.load_grammar(path='python/grammar%s.txt' % v.replace('.', ''))
                else:
                    parso.load_grammar(version=vs[-1] if how == 'newest-first' else vs[0])
            except Exception:
                pass
            ctx.count('load-orders')
            for t, b0 in zip(texts, base):
                try:
                    got = do_task(('errors', v, t))
                except Exception as e:
                    got = preds.crash_sig(e)
                if got != b0:
                    ctx.violation('C18:result-depends-on-grammars-loaded-before',
                                  dict(kind='schedule', steps=['load_grammar(%s)' % ("path='python/grammar%s.txt'" % v.replace('.', '') if how == 'path' else how),
                                                               "load_grammar(version='%s')" % v, 'parse + iter_errors'], version=v, input_text=t,
                                       observed=str(got)[:300], expected=str(b0)[:300]))
                    break
    pgrammar._loaded_grammars.clear()
    ptok._token_collection_cache.clear()


def _stable(x, depth=0):
    """order-insensitive, address-free rendering of a table"""
    import re as _re
    if depth > 6:
        return '...'
    if isinstance(x, dict):
        return ('dict', tuple(sorted((_stable(k, depth + 1), _stable(v, depth + 1)) for k, v in x.items())))
    if isinstance(x, (set, frozenset)):
        return ('set', tuple(sorted(_stable(k, depth + 1) for k in x)))
    if isinstance(x, (list, tuple)):
        return (type(x).__name__, tuple(_stable(k, depth + 1) for k in x))
    if isinstance(x, _re.Pattern):
        return ('re', x.pattern, x.flags)
    if isinstance(x, (str, bytes, int, float, bool, type(None))):
        return repr(x)
    if isinstance(x, type):
        return 'class:' + x.__name__
    return 'obj:' + type(x).__name__


def fingerprint():
    out = {}
    for path, g in sorted(pgrammar._loaded_grammars.items()):
        pg = g._pgen_grammar
        d = []
        for r, dfas in pg.nonterminal_to_dfas.items():
            for s in dfas:
                d.append((r, s.is_final, tuple(sorted(s.arcs)), tuple(sorted(str(t) for t in s.transitions)),
                          tuple(sorted((str(t), p.next_dfa.from_rule, len(p.dfa_pushes)) for t, p in s.transitions.items()))))
        out['grammar:' + str(path).split('/')[-1]] = hash((tuple(sorted(d)), tuple(sorted(pg.reserved_syntax_strings)), pg.start_nonterminal,
                                                              tuple(sorted(k for k in vars(g) if not k.startswith('__')))))
    out['token_collections'] = tuple(sorted(ptok._token_collection_cache))
    # the CONTENTS of every memoised token collection (an alias of one of these sets / dicts may be mutated in place)
    for key, tc in sorted(ptok._token_collection_cache.items()):
        out['token_collection:%s' % (key,)] = _stable(tuple(tc))
    # every module-level container of every parso module (tables, registries, caches other than the parser cache)
    for mname in sorted(n for n in sys.modules if n == 'parso' or n.startswith('parso.')):
        mod = sys.modules[mname]
        for name, val in sorted(vars(mod).items()):
            if name.startswith('__') or name in ('parser_cache', '_loaded_grammars', '_token_collection_cache'):
                continue
            if isinstance(val, (list, dict, set, frozenset, tuple)):
                out['global:%s.%s' % (mname, name)] = _stable(val)
    from parso.python.errors import ErrorFinder
    from parso.python.pep8 import PEP8Normalizer
    from parso.normalizer import Normalizer
    for cls in (Normalizer, ErrorFinder, PEP8Normalizer):
        for attr in ('rule_value_classes', 'rule_type_classes'):
            d = getattr(cls, attr)
            out['%s.%s' % (cls.__name__, attr)] = tuple(sorted((str(k), tuple(c.__name__ for c in v)) for k, v in d.items()))
    # class-level containers of every class of every parso module (a rule class that keeps per-call state in a class attribute shares it between all
    # walks, versions and threads)
    for mname in sorted(n for n in sys.modules if n == 'parso' or n.startswith('parso.')):
        mod = sys.modules[mname]
        for cname, cls in sorted(vars(mod).items()):
            if isinstance(cls, type) and getattr(cls, '__module__', None) == mname:
                for name, val in sorted(vars(cls).items()):
                    if not name.startswith('__') and isinstance(val, (list, dict, set)) and name not in ('rule_value_classes', 'rule_type_classes', 'node_map'):
                        out['class:%s.%s.%s' % (mname, cname, name)] = _stable(val)
    import parso.python.tree as pt, parso.tree as bt, parso.python.parser as pp
    out['node_map'] = tuple(sorted((k, v.__name__) for k, v in pp.Parser.node_map.items()))
    # interpreter-wide state that parso touches on some path (warning filters around string decoding, the garbage collector around unpickling)
    import warnings, gc
    out['interpreter:warnings.filters'] = tuple((a, getattr(m, 'pattern', m), c.__name__, getattr(mo, 'pattern', mo), l) for a, m, c, mo, l in warnings.filters)
    out['interpreter:gc.isenabled'] = gc.isenabled()
    out['interpreter:recursionlimit'] = sys.getrecursionlimit()
    out['interpreter:cwd'] = os.getcwd()
    return out


def gen_tasks(r, n):
    vs = ['3.6', '3.8', '3.10', '3.12']
    tasks = []
    # half of the runs are dominated by issue listing: its walks overlap in every order (A starts, B starts, A ends, B ends), which is what it takes
    # to see state that a walk saves at its start and restores at its end
    kinds = ['parse', 'parse', 'errors', 'tokenize'] if r.random() < 0.5 else ['errors', 'errors', 'errors', 'parse']
    for i in range(n):
        kind, text = gens.text_case(r.random(), 'c18-text', i, ['oneliner', 'valid', 'mutate', 'lines', 'semantic'])
        tasks.append((r.choice(kinds), r.choice(vs), text[:160]))
    if r.random() < 0.6:
        # rules that collect something while they look at one construct (the targets of the comprehensions around an assignment expression, the
        # names of a scope): two such walks at the same time, on texts that give different answers
        pool = ['[i := 0 for i, j in range(5)]\n', '[(y := 1) for z in range(5)]\n', '[[(j := 0) for i in range(5)] for j in range(5)]\n', '{(a := 1): 2 for b in c}\n',
                '[i for i in range(5) if (j := 0) for k[j + 1] in range(5)]\n', 'def f():\n    global x\n    x = 1\n    nonlocal y\n', 'def f(x):\n    global x\n',
                'def g():\n    x = 1\n    def h():\n        nonlocal x\n        global x\n', '[(i, j := 1) for i, (j, k) in z]\n', '(a := 1 for a in b)\n']
        for _ in range(2):
            tasks[r.randrange(n)] = ('errors', r.choice(['3.8', '3.10', '3.12']), r.choice(pool))
    if r.random() < 0.3:
        # a walk that ends in an exception (the recursive visitor on deep nesting): what it set up must be undone all the same
        tasks[r.randrange(n)] = ('errors', r.choice(vs), 'x = ' + '[' * 400 + '1' + ']' * 400 + '\n')
    return tasks


def run_threads(tasks, schedule, fresh_tables):
    if fresh_tables:
        pgrammar._loaded_grammars.clear()
        ptok._token_collection_cache.clear()
    n = len(tasks)
    sch = Sched(n, schedule)
    res = [None] * n

    def work(i):
        sys.settrace(sch.tracer(i))
        try:
            res[i] = ('ok', do_task(tasks[i]))
        except Exception as e:
            res[i] = ('exc', preds.crash_sig(e))
        finally:
            sys.settrace(None)
            sch.finish(i)
    ths = [threading.Thread(target=work, args=(i,)) for i in range(n)]
    for t in ths:
        t.start()
    for t in ths:
        t.join(120)
    return res, sch.switches


FRESH = r"""
import sys, json
sys.path.insert(0, '/verif')
from harness.props import C18
tasks, schedule = json.load(sys.stdin)
tasks = [tuple(t) for t in tasks]
res, switches = C18.run_threads(tasks, [tuple(x) for x in schedule], False)
print('RESULT ' + json.dumps([repr(r) for r in res]))
"""


def first_use_in_fresh_process(ctx, n):
    """the very first use of parso in a process happens under a forced interleaving: tables that are built on first use (grammars, token collections and
    whatever else is memoised at module level) are being filled by one thread while the others already look at them; the results must be those of a
    sequential run"""
    import subprocess, json
    for i in range(n):
        r = gens.rng(ctx.seed, 'fresh-process', i)
        tasks = gen_tasks(r, r.randint(2, 5))
        tasks = [t for t in tasks if len(t[2]) < 400]
        if len(tasks) < 2:
            continue
        nt = len(tasks)
        # loading a grammar is hundreds of thousands of lines: slots of very different lengths, enough of them to cover the whole first use
        schedule = [(r.randrange(nt), r.choice([1, 2, 5, 13, 40, 100, 300, 1000, 3000])) for _ in range(r.randint(1500, 4000))]
        exp = []
        for t in tasks:
            try:
                exp.append(('ok', do_task(t)))
            except Exception as e:
                exp.append(('exc', preds.crash_sig(e)))
        common.keepalive()
        try:
            p = subprocess.run(['/venv/bin/python', '-c', FRESH], input=json.dumps([[list(t) for t in tasks], schedule]), capture_output=True, text=True,
                               timeout=300, env=dict(os.environ, PYTHONPATH='/repo', PYTHONHASHSEED='0', PYTHONDONTWRITEBYTECODE='1'))
        except subprocess.TimeoutExpired:
            ctx.violation('C18:first-use-under-interleaving-does-not-finish', dict(kind='schedule', tasks=[list(t) for t in tasks], schedule=schedule))
            continue
        ctx.count('fresh-process-schedules')
        line = next((l for l in p.stdout.split('\n') if l.startswith('RESULT ')), None)
        if line is None:
            ctx.violation('C18:first-use-under-interleaving-crashes', dict(kind='schedule', tasks=[list(t) for t in tasks], schedule=schedule, stderr=p.stderr[-600:]))
            continue
        got = json.loads(line[7:])
        want = [repr(x) for x in exp]
        if got != want:
            k = next(j for j in range(nt) if got[j] != want[j])
            ctx.violation('C18:first-use-under-interleaving-differs-from-sequential:%s' % tasks[k][0],
                          dict(kind='schedule', tasks=[list(t) for t in tasks], schedule=schedule, differing_task=k, observed=got[k][:300], expected=want[k][:300]))


def run(ctx, b, drv):
    pend = base.Pending(ctx)
    base.obligations(ctx, b, pend, ['Memo.v', 'Properties/C18.v'])
    ws = writeset.write_set()
    extra = [w for w in ws if tuple(w) not in set(map(tuple, ALLOWED))]
    ctx.add_obligation('write-set of parso/ (module-level state written inside functions; shared Grammar attributes) is within the allow-list', not extra,
                       '; '.join(map(str, extra)))
    if extra:
        pend.add('obligation-failed:write-set', dict(kind='theorem', obligation='write-set allow-list (harness/writeset.py)', new_writes=[list(x) for x in extra]))
    ctx.cov['write_set'] = [list(w) for w in ws]
    load_order(ctx)
    nruns = 10 if ctx.tier == 'quick' else 80
    for i in range(nruns):
        r = gens.rng(ctx.seed, 'schedules', i)
        n = r.randint(2, 8)
        tasks = gen_tasks(r, n)
        # pristine reference: memo tables emptied, then filled by first use only (load the grammars and token collections the tasks will
        # need, without parsing anything) - whatever the tasks do afterwards must leave exactly this state
        pgrammar._loaded_grammars.clear()
        ptok._token_collection_cache.clear()
        for vv in sorted(set(t[1] for t in tasks)):
            if any(t[1] == vv and t[0] != 'tokenize' for t in tasks):
                parso.load_grammar(version=vv)
            ptok._get_token_collection(parse_version_string(vv))
        fp_ref = fingerprint()
        # sequential reference, in two different orders with empty memo tables
        pgrammar._loaded_grammars.clear()
        ptok._token_collection_cache.clear()
        exp = []
        for t in tasks:
            try:
                exp.append(('ok', do_task(t)))
            except Exception as e:
                exp.append(('exc', preds.crash_sig(e)))
        fp0 = fingerprint()
        if fp0 != fp_ref:
            diff = sorted(k for k in set(fp0) | set(fp_ref) if fp0.get(k) != fp_ref.get(k))
            ctx.violation('C18:shared-state-changed-by-calls', dict(kind='schedule', tasks=[list(t) for t in tasks], changed=diff[:10],
                                                                    note='state after the tasks differs from the state after first-use memoisation alone'))
        pgrammar._loaded_grammars.clear()
        ptok._token_collection_cache.clear()
        order = list(range(n))
        r.shuffle(order)
        exp2 = [None] * n
        for j in order:
            try:
                exp2[j] = ('ok', do_task(tasks[j]))
            except Exception as e:
                exp2[j] = ('exc', preds.crash_sig(e))
        ctx.count('sequential-orders', 2)
        if exp2 != exp:
            k = next(j for j in range(n) if exp[j] != exp2[j])
            ctx.violation('C18:result-depends-on-call-order', dict(kind='schedule', tasks=[list(t) for t in tasks], order=order, differing_task=k))
        if fingerprint() != fp0:
            ctx.violation('C18:shared-state-depends-on-call-order', dict(kind='schedule', tasks=[list(t) for t in tasks], order=order))
        # other ways of loading grammars first: a shipped grammar file loaded by path (for the running interpreter's version), newer and older versions,
        # the same version spelled differently
        pgrammar._loaded_grammars.clear()
        ptok._token_collection_cache.clear()
        import parso as _parso
        pre = []
        for _ in range(r.randint(1, 4)):
            vv = r.choice(['3.6', '3.7', '3.8', '3.9', '3.10', '3.11', '3.12', '3.13', '3.14'])
            how = r.choice(['path', 'version', 'version-long'])
            pre.append((how, vv))
            try:
                if how == 'path':
                    _parso.load_grammar(path='python/grammar%s.txt' % vv.replace('.', ''))
                elif how == 'version':
                    _parso.load_grammar(version=vv)
                else:
                    _parso.load_grammar(version=vv + '.7')
            except Exception:
                pass
        exp3 = []
        for t in tasks:
            try:
                exp3.append(('ok', do_task(t)))
            except Exception as e:
                exp3.append(('exc', preds.crash_sig(e)))
        ctx.count('sequential-orders')
        if exp3 != exp:
            k = next(j for j in range(n) if exp[j] != exp3[j])
            ctx.violation('C18:result-depends-on-grammars-loaded-before', dict(kind='schedule', loaded_before=[list(x) for x in pre], tasks=[list(t) for t in tasks],
                                                                            differing_task=k, observed=str(exp3[k])[:300], expected=str(exp[k])[:300]))
        pgrammar._loaded_grammars.clear()
        ptok._token_collection_cache.clear()
        for t in tasks:
            try:
                do_task(t)
            except Exception:
                pass
        # repeated calls leave the state unchanged
        for t in tasks[:2]:
            do_task(t)
        if fingerprint() != fp0:
            ctx.violation('C18:shared-state-changed-by-repeated-call', dict(kind='schedule', tasks=[list(t) for t in tasks[:2]]))
        schedule = [(r.randrange(n), r.choice([1, 1, 2, 3, 5, 8, 13, 40])) for _ in range(r.randint(40, 250))]
        res, switches = run_threads(tasks, schedule, fresh_tables=(i % 2 == 0))
        ctx.count('schedules')
        ctx.nontrivial(('sched', i, switches))
        if i == 0:
            ctx.sample(dict(stream='schedules', tasks=[list(t) for t in tasks], schedule=schedule[:20], forced_switches=switches))
        if res != exp:
            k = next(j for j in range(n) if exp[j] != res[j])
            ctx.violation('C18:threaded-result-differs-from-sequential:%s' % tasks[k][0],
                          dict(kind='schedule', tasks=[list(t) for t in tasks], schedule=schedule, differing_task=k,
                               observed=str(res[k])[:300], expected=str(exp[k])[:300], fresh_tables=(i % 2 == 0)))
        fp1 = fingerprint()
        if fp1 != fp0:
            diff = [k for k in set(fp0) | set(fp1) if fp0.get(k) != fp1.get(k)]
            ctx.violation('C18:shared-state-changed-by-threaded-run', dict(kind='schedule', tasks=[list(t) for t in tasks], schedule=schedule, changed=diff))
    first_use_in_fresh_process(ctx, 30 if ctx.tier == 'quick' else 200)
    pend.flush()
    ctx.cov['rule'] = ('2-8 threads, each one parse / iter_errors / tokenize task on shared grammar objects, switch points forced at line granularity by a generated '
                       'schedule of (thread, quantum) slots; memo tables emptied before every second run; non-trivial = run with forced switches')
