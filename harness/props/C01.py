from harness.props import base
from harness import preds
LEVEL = 'proof'
VFILES = ['Lines.v', 'Tree.v', 'RegexFacts.v', 'TokTiles.v', 'Properties/C01.v', 'Properties/C09.v']
EXPLANATION = ('Theorems for all inputs: the line list concatenates to the input; the token stream tiles the lines (tok_tiles, guarded tokenizer model, see C09); '
               'get_code of any tree = in-order leaf texts; every subtree is a contiguous slice. Not yet proved: the engine keeps every token as a leaf '
               '(parse_keeps_tokens, C01_partial) - covered by the parse correspondence (model = implementation) plus the tiles/get_code/slice predicates on '
               'implementation trees.')


def pred(v, code, m):
    return preds.c01_roundtrip(code, m)


def run(ctx, b, drv):
    base.std_text_check(ctx, b, drv, VFILES, ['lines', 'tok', 'parse'], pred, 1500, 1500, 'c01')
    # bytes input: code returned equals decoded text
    import parso
    from parso.utils import python_bytes_to_unicode
    from harness import gens
    for i in range(base.scale(ctx, 200)):
        kind, code = gens.text_case(ctx.seed, 'c01-bytes', i, ['valid', 'mutate', 'oneliner'])
        try:
            bs = code.encode('utf-8')
        except UnicodeEncodeError:
            continue
        ctx.count('c01-bytes')
        try:
            m = parso.parse(bs)
            if m.get_code() != python_bytes_to_unicode(bs, errors='replace'):
                ctx.violation('C01:bytes-roundtrip', dict(kind='input', input_text=code, observed='get_code != decoded text'))
        except LookupError:
            pass  # C15 / F5 territory: unknown coding cookie
        except Exception as e:
            ctx.violation(preds.crash_sig(e), dict(kind='input', input_text=code))
