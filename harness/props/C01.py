from harness.props import base
from harness import preds
LEVEL = 'proof'
VFILES = ['Lines.v', 'Tree.v', 'RegexFacts.v', 'TokTiles.v', 'TokShape.v', 'ParseKeeps.v', 'Model.v', 'Properties/C09.v', 'Properties/C01.v']
TECHNIQUE = 'Coq proof of the round trip on the whole Gallina pipeline (lines -> tokenizer -> engine with error recovery -> tree) for all texts + regenerated tables + tok/parse/lines correspondence + predicate search'
EXPLANATION = ('C01_roundtrip, closed under the global context: for every shipped version, both modes, every start rule and EVERY text, if the pipeline model '
               '(split_keep ; tokenize_lines ; parse with error recovery, instantiated with the regenerated regexes and automata) returns a tree, then get_code of '
               'the tree is the text; corollaries: every subtree is a contiguous slice, the in-order leaves tile the input. It composes split_keep_concat, '
               'tok_tiles (tokens tile the lines), parse_keeps_text (the engine, including stack removal, error nodes/leaves, suite and parameter regrouping, '
               'keeps the text of every token) and get_code_leaves. The model carries explicit guards (Err Guard / PGuard) at the few places where the Python code '
               'relies silently on f-string bookkeeping and on the grammar shape of suite/parameters; the theorem is about runs that return a tree, and the '
               'lines/tok/parse correspondence streams establish model = implementation (never a guard) on all generated inputs. Decoding of bytes input is an '
               'oracle (C15); the predicate search checks tiles / get_code / every subtree slice / bytes round trip on implementation trees.')
LEVEL_TEXT = EXPLANATION


def pred(v, code, m):
    return preds.c01_roundtrip(code, m)


def run(ctx, b, drv):
    base.std_text_check(ctx, b, drv, VFILES, ['lines', 'tok', 'parse'], pred, 1500, 1500, 'c01')
    # bytes input: code returned equals decoded text
    import parso
    from parso.utils import python_bytes_to_unicode
    from harness import gens
    for i in range(base.scale(ctx, 200)):
        kind, code = gens.text_case(ctx.seed, 'c01-bytes', i, ['valid', 'mutate', 'oneliner'])
        try:
            bs = code.encode('utf-8')
        except UnicodeEncodeError:
            continue
        ctx.count('c01-bytes')
        try:
            m = parso.parse(bs)
            if m.get_code() != python_bytes_to_unicode(bs, errors='replace'):
                ctx.violation('C01:bytes-roundtrip', dict(kind='input', input_text=code, observed='get_code != decoded text'))
        except LookupError:
            pass  # C15 / F5 territory: unknown coding cookie
        except Exception as e:
            ctx.violation(preds.crash_sig(e), dict(kind='input', input_text=code))
