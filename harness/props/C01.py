from harness.props import base
from harness import preds
LEVEL = 'proof'
VFILES = ['Lines.v', 'Tree.v', 'RegexFacts.v', 'Properties/C01.v']
EXPLANATION = ('Theorems: line list concatenates to the input; get_code = in-order leaf texts; every subtree is a contiguous slice. '
               'The tokenizer-tiling and token-conservation lemmas are covered by the correspondence (model = implementation on tok/parse streams) '
               'plus the search predicate tiles/get_code/slices on implementation trees.')


def pred(v, code, m):
    return preds.c01_roundtrip(code, m)


def run(ctx, b, drv):
    base.std_text_check(ctx, b, drv, VFILES, ['lines', 'tok', 'parse'], pred, 1500, 1500, 'c01')
    # bytes input: code returned equals decoded text
    import parso
    from parso.utils import python_bytes_to_unicode
    from harness import gens
    for i in range(base.scale(ctx, 200)):
        kind, code = gens.text_case(ctx.seed, 'c01-bytes', i, ['valid', 'mutate', 'oneliner'])
        try:
            bs = code.encode('utf-8')
        except UnicodeEncodeError:
            continue
        ctx.count('c01-bytes')
        try:
            m = parso.parse(bs)
            if m.get_code() != python_bytes_to_unicode(bs, errors='replace'):
                ctx.violation('C01:bytes-roundtrip', dict(kind='input', input_text=code, observed='get_code != decoded text'))
        except LookupError:
            pass  # C15 / F5 territory: unknown coding cookie
        except Exception as e:
            ctx.violation(preds.crash_sig(e), dict(kind='input', input_text=code))
