from harness.props import base
from harness import preds, streams, gens
LEVEL = 'other'
VFILES = ['Tree.v', 'Refactor.v', 'Properties/C19.v']
TECHNIQUE = ('Coq proof that the model of RefactoringNormalizer is an exact text splice for every node-to-text map (structural induction over trees) + refactor '
             'correspondence (model vs Grammar.refactor on random disjoint and nested target sets) + dump/eval and pickle round trips on implementation trees')
EXPLANATION = ('Proved on the Gallina model of RefactoringNormalizer.walk for ALL trees and ALL maps (Refactor.refactor_is_splice, frontier_pieces): the code of the tree '
               'and the refactored text are the concatenations of the old and new texts of one list of pieces, each piece being an unmapped leaf copied verbatim or a '
               'maximal mapped subtree replaced as a whole (prefix included; mapped nodes below a mapped node are ignored); corollaries for the empty map and a '
               'single target. The refactor stream ties the model to Grammar.refactor. C19_partial: the serialisation half (pickle, eval of dump() for every indent '
               'style) is not modelled - it is about Python object construction - and is decided by round-trip predicates on implementation trees.')
LEVEL_TEXT = EXPLANATION


def pred(v, code, m):
    return preds.c19_serial(v, code, m, gens.rng(0, 'c19pick', len(code)))


def run(ctx, b, drv):
    pend0 = base.Pending(ctx)
    base.mismatches(ctx, pend0, streams.run_refactor(ctx, base.scale(ctx, 800), drv), None)
    pend0.flush()
    base.std_text_check(ctx, b, drv, VFILES, ['parse'], pred, 500, 800, 'c19')
    refactor_after_incremental(ctx, base.scale(ctx, 120))


def refactor_after_incremental(ctx, n):
    """the node-to-text map is built on a cached module, the file is then re-parsed incrementally (the diff parser keeps nodes and moves them), and the
    map is applied to the updated module: every key that is still part of the tree must be replaced, exactly as a splice by identity says"""
    import parso
    from parso import cache as pcache
    from harness.props import C04
    for i in range(n):
        r = gens.rng(ctx.seed, 'c19-inc', i)
        hist = C04.gen_history(r)
        v = r.choice(streams.versions())
        g = parso.load_grammar(version=v)
        path = '/verif/.work/c19-virtual-%d.py' % i
        pcache.parser_cache.pop(g._hashed, None)
        try:
            m = g.parse(hist[0], diff_cache=True, path=path)
        except Exception:
            continue
        chosen = {}
        for node in preds.iter_nodes(m):
            if node is not m and r.random() < (0.3 if not hasattr(node, 'children') else 0.05):
                chosen[node] = '<%d>' % len(chosen)
        for step, text in enumerate(hist[1:], 1):
            ctx.count('c19-incremental-refactor')
            try:
                m2 = g.parse(text, diff_cache=True, path=path)
            except Exception:
                break          # C04's business
            live = {id(x) for x in preds.iter_nodes(m2)}
            ids = {id(k): t for k, t in chosen.items() if id(k) in live}

            def expect(x):
                if id(x) in ids:
                    return ids[id(x)]
                if hasattr(x, 'children'):
                    return ''.join(expect(c) for c in x.children)
                return x.prefix + x.value
            try:
                got = g.refactor(m2, chosen)
                want = expect(m2)
            except RecursionError:
                break
            except Exception as e:
                ctx.violation('C19:refactor-raises-after-incremental-parse:%s' % type(e).__name__, dict(kind='history', version=v, steps=hist[:step + 1]))
                break
            if got != want:
                ctx.violation('C19:refactor-splice-after-incremental-parse', dict(kind='history', version=v, steps=hist[:step + 1], keys=len(ids),
                                                                                got=got[:200], want=want[:200]))
                break
        pcache.parser_cache.pop(g._hashed, None)
