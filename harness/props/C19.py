from harness.props import base
from harness import preds, gens
LEVEL = 'other'
VFILES = ['Tree.v']
EXPLANATION = 'dump/eval, pickle, refactor splice predicates on implementation trees.'


def pred(v, code, m):
    return preds.c19_serial(v, code, m, gens.rng(0, 'c19pick', len(code)))


def run(ctx, b, drv):
    base.std_text_check(ctx, b, drv, VFILES, ['parse'], pred, 500, 800, 'c19')
