from harness.props import base
from harness import preds, streams, gens
LEVEL = 'other'
VFILES = ['Tree.v', 'Refactor.v', 'Properties/C19.v']
TECHNIQUE = ('Coq proof that the model of RefactoringNormalizer is an exact text splice for every node-to-text map (structural induction over trees) + refactor '
             'correspondence (model vs Grammar.refactor on random disjoint and nested target sets) + dump/eval and pickle round trips on implementation trees')
EXPLANATION = ('Proved on the Gallina model of RefactoringNormalizer.walk for ALL trees and ALL maps (Refactor.refactor_is_splice, frontier_pieces): the code of the tree '
               'and the refactored text are the concatenations of the old and new texts of one list of pieces, each piece being an unmapped leaf copied verbatim or a '
               'maximal mapped subtree replaced as a whole (prefix included; mapped nodes below a mapped node are ignored); corollaries for the empty map and a '
               'single target. The refactor stream ties the model to Grammar.refactor. C19_partial: the serialisation half (pickle, eval of dump() for every indent '
               'style) is not modelled - it is about Python object construction - and is decided by round-trip predicates on implementation trees.')
LEVEL_TEXT = EXPLANATION


def pred(v, code, m):
    return preds.c19_serial(v, code, m, gens.rng(0, 'c19pick', len(code)))


def run(ctx, b, drv):
    pend0 = base.Pending(ctx)
    base.mismatches(ctx, pend0, streams.run_refactor(ctx, base.scale(ctx, 800), drv), None)
    pend0.flush()
    base.std_text_check(ctx, b, drv, VFILES, ['parse'], pred, 500, 800, 'c19')
