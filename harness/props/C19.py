from harness.props import base
from harness import preds, streams, gens
LEVEL = 'other'
VFILES = ['Tree.v', 'Refactor.v', 'Properties/C19.v']
EXPLANATION = 'dump/eval, pickle, refactor splice predicates on implementation trees.'


def pred(v, code, m):
    return preds.c19_serial(v, code, m, gens.rng(0, 'c19pick', len(code)))


def run(ctx, b, drv):
    pend0 = base.Pending(ctx)
    base.mismatches(ctx, pend0, streams.run_refactor(ctx, base.scale(ctx, 800), drv), None)
    pend0.flush()
    base.std_text_check(ctx, b, drv, VFILES, ['parse'], pred, 500, 800, 'c19')
