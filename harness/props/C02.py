from harness.props import base
from harness import preds
LEVEL = 'other'
VFILES = ['Tok.v', 'Engine.v']
EXPLANATION = ('C02_total is not closed as a theorem yet (DESIGN.md section 6, C02): the check decides totality by (a) the correspondence of the '
               'total Gallina model (which returns a tree or an explicit error value, never diverges) with the implementation, and (b) search for '
               'any exception / malformed module shape on the implementation.')


def pred(v, code, m):
    return preds.c02_shape(code, m)


def run(ctx, b, drv):
    base.std_text_check(ctx, b, drv, VFILES, ['tok', 'parse'], pred, 3000, 2000, 'c02')
