from harness.props import base
from harness import preds
LEVEL = 'other'
VFILES = ['Tok.v', 'TokShape.v', 'Engine.v', 'EngineShape.v', 'EngineFuel.v', 'Properties/C02.v']
TECHNIQUE = ('Coq invariant proofs on the pipeline model for the shape of the result (non-empty nodes, one end marker) + tok/parse correspondence of the total '
             'Gallina model (tree or explicit error value) + search for any exception / malformed module on the implementation')
EXPLANATION = ('Proved on the pipeline model for every version, mode, start rule and text (Properties/C02.v): whenever a tree is returned every interior node has at '
               'least one child (EngineShape.parse_nonempty_nodes: pop, convert_node, stack removal and error recovery never build an empty node) and the token '
               'stream ends with exactly one ENDMARKER (TokShape.tok_shape); the engine never exhausts the fuel the model gives it and never finds its stack empty (EngineFuel.parse_fuel_suffices: at most two steps per stack frame and token). C02_total is not closed as a theorem (DESIGN.md section 6, C02): that a tree is always '
               'returned is decided by (a) the correspondence of the total Gallina model (which returns a tree or an explicit error value, never diverges) with the '
               'implementation, and (b) search for any exception / malformed module shape on the implementation.')
LEVEL_TEXT = EXPLANATION


def pred(v, code, m):
    return preds.c02_shape(code, m)


def run(ctx, b, drv):
    base.std_text_check(ctx, b, drv, VFILES, ['tok', 'parse'], pred, 3000, 2000, 'c02')
