from harness.props import base
from harness import preds
from harness import impl, streams
LEVEL = 'proof'
VFILES = ['Engine.v', 'LL1.v', 'LL1Inst.v', 'LL1Engine.v', 'EngineSound.v', 'EngineConfine.v', 'Properties/C05.v']
TECHNIQUE = ('Coq soundness proof of the plan-driven LL(1) engine (invariant: every stack frame holds derivations that drive its rule automaton; verified boolean '
             'checkers over the regenerated tables, one vm_compute obligation per grammar) + refinement to the extracted Engine model + parse/plans correspondence '
             '+ conformance predicate search on implementation trees')
EXPLANATION = ('Proved for every shipped grammar (gen/LL1_<v>.v: tables_sound_ok by vm_compute on the regenerated automata and plan tables, C05_sound_<v>) and in general '
               '(Properties/C05.v): whatever the strict parser of the Engine model accepts without the missing-newline repair is convert_node of the collapsed form of a '
               'derivation d with wf d (every node names a rule, is non-empty and its children drive that rule\'s automaton from start to a final state) and yield d = the '
               'token word; the strict parser returns the same tree, and (C07) so does the recovering one. With the C08 obligations (automata = EBNF rules) each node is a '
               'complete instance of its rule; single-child collapse and the suite / parameter conventions are `collapse` / `convert_node`. Error confinement (EngineConfine.errors_confined, C05_errors_confined_<v>): in every tree the engine returns, strict or recovering, for any token list, an error node / '
               'error leaf is a child only of a node whose rule is in the holder set computed from the regenerated automata (file_input, suite, stmt, compound_stmt and the compound '
               'statements - no expression, no simple statement) or of another error node; param nodes never hold one. C05_partial: conformance of the non-error nodes of recovered trees and of runs using the '
               'missing-newline repair is decided by the conformance predicate (DESIGN.md C05 conventions) on implementation trees and by the parse correspondence.')
LEVEL_TEXT = EXPLANATION


def ll1_files():
    return ['gen/LL1_%s.v' % impl.vn(v) for v in streams.versions()]


def pred(v, code, m):
    return preds.c05_conforms(v, m)


def run(ctx, b, drv):
    base.std_text_check(ctx, b, drv, VFILES + base.rules_files() + ll1_files(), ['parse', 'plans'], pred, 2000, 1500, 'c05')
