from harness.props import base
from harness import preds
from harness import impl, streams
LEVEL = 'proof'
VFILES = ['Engine.v', 'LL1.v', 'LL1Inst.v', 'LL1Engine.v', 'EngineSound.v', 'EngineConfine.v', 'EngineRecover.v', 'Properties/C05.v']
TECHNIQUE = ('Coq soundness proof of the plan-driven LL(1) engine (invariant: every stack frame holds derivations that drive its rule automaton; verified boolean '
             'checkers over the regenerated tables, one vm_compute obligation per grammar) + refinement to the extracted Engine model + parse/plans correspondence '
             '+ conformance predicate search on implementation trees')
EXPLANATION = ('Proved for every shipped grammar (gen/LL1_<v>.v: tables_sound_ok by vm_compute on the regenerated automata and plan tables, C05_sound_<v>) and in general '
               '(Properties/C05.v): whatever the strict parser of the Engine model accepts without the missing-newline repair is convert_node of the collapsed form of a '
               'derivation d with wf d (every node names a rule, is non-empty and its children drive that rule\'s automaton from start to a final state) and yield d = the '
               'token word; the strict parser returns the same tree, and (C07) so does the recovering one. With the C08 obligations (automata = EBNF rules) each node is a '
               'complete instance of its rule; single-child collapse and the suite / parameter conventions are `collapse` / `convert_node`. Error confinement (EngineConfine.errors_confined, C05_errors_confined_<v>): in every tree the engine returns, strict or recovering, for any token list, an error node / '
               'error leaf is a child only of a node whose rule is in the holder set computed from the regenerated automata (file_input, suite, stmt, compound_stmt and the compound '
               'statements - no expression, no simple statement) or of another error node; param nodes never hold one. Recovered trees and repair runs (EngineRecover.recovered_conform, C05_recovered_conform_<v>): every tree the engine returns, both modes, any token list, is convert_node of the collapsed form of a '
               'derivation with error markers in which every rule node - also inside error nodes - is a complete instance of its rule, an error marker standing for a sequence of nonterminal arcs, the stmt arc of a suite and the '
               'NEWLINE arc of a simple_stmt possibly taken without a child. C05_partial (decided by the conformance predicate on implementation trees and the parse correspondence): that a childless stmt arc only occurs '
               'next to an error marker, that a missing NEWLINE only occurs in front of the end marker (known finding F52: it does not, after a bracket break), and the yield of recovered derivations.')
LEVEL_TEXT = EXPLANATION


def ll1_files():
    return ['gen/LL1_%s.v' % impl.vn(v) for v in streams.versions()]


def pred(v, code, m):
    return preds.c05_conforms(v, m)


VERSION_SENSITIVE = ['a[i := 0]\n', 'print(x := 1)\n', 'def f(a, /, b): pass\n', 'match x:\n    case 1:\n        pass\n', 'async = 1\nawait = 2\n', 'with (a as b, c as d): pass\n',
                     'f(**k, *a)\n', 'x = [*a, *b]\nprint(*a, *b)\n', 'lambda: (yield)\n', 'try:\n    pass\nexcept* E:\n    pass\n', 'type X = int\n', 'def g[T](a: T): pass\n',
                     '@a.b[c]\ndef h(): pass\n', 'for x in *a, *b: pass\n', 'f"{x!r:>{w}}"\n', 'return\n', 'x: int = 1\n', 'a = b if c else d\n']


def cross_version_cache(ctx):
    """the same file parsed by path with the cache switched on, by one grammar version after the other (memory entries and pickles): every tree
    must be a tree of the grammar that was asked - conforming, and equal to what that grammar parses without a cache"""
    import os, shutil, random, warnings, parso
    from pathlib import Path
    from parso import cache as pcache
    root = '/verif/.work/c05-cache-%d' % os.getpid()
    vs = streams.versions()
    r = random.Random('c05-cache:%s' % ctx.seed)
    try:
        for i, code in enumerate(VERSION_SENSITIVE):
            shutil.rmtree(root, ignore_errors=True)
            os.makedirs(root)
            path = os.path.join(root, 'm%d.py' % i)
            with open(path, 'w') as f:
                f.write(code)
            old = __import__('time').time() - 1000
            os.utime(path, (old, old))
            order = list(vs)
            r.shuffle(order)
            for drop_memory in (False, True):
                for v in order + order[:3]:
                    g = parso.load_grammar(version=v)
                    if drop_memory:
                        pcache.parser_cache.clear()
                    ctx.count('c05-cross-version-cache')
                    try:
                        with warnings.catch_warnings():
                            warnings.simplefilter('ignore')
                            m = g.parse(path=path, cache=True, cache_path=Path(root) / 'cache')
                    except Exception as e:
                        ctx.violation('C05:cached-parse-raises:' + preds.crash_sig(e), dict(kind='input', version=v, input_text=code, order=order))
                        break
                    sig = pred(v, code, m)
                    if not sig and preds.sig_tree(m) != preds.sig_tree(g.parse(code)):
                        sig = 'C05:cached-tree-is-not-the-tree-of-the-grammar-asked'
                    if sig:
                        ctx.violation(sig, dict(kind='input', version=v, input_text=code, order=order, through='memory cache' if not drop_memory else 'pickle', observed=sig))
                        break
    finally:
        pcache.parser_cache.clear()
        shutil.rmtree(root, ignore_errors=True)


def run(ctx, b, drv):
    cross_version_cache(ctx)
    base.std_text_check(ctx, b, drv, VFILES + base.rules_files() + ll1_files(), ['parse', 'plans'], pred, 2000, 1500, 'c05')
