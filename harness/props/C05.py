from harness.props import base
from harness import preds
LEVEL = 'other'
VFILES = ['Engine.v'] 
EXPLANATION = 'conformance predicate (DESIGN.md C05 conventions) on implementation trees + parse correspondence; table obligations of C08 give that the automata are the rules.'


def pred(v, code, m):
    return preds.c05_conforms(v, m)


def run(ctx, b, drv):
    base.std_text_check(ctx, b, drv, VFILES + base.rules_files(), ['parse', 'plans'], pred, 2000, 1500, 'c05')
