import os
from harness.props import base
from harness import gens, streams, impl, preds, common
import parso
from parso import cache as pcache

LEVEL = 'translation_validation'
VFILES = ['Lines.v', 'Tok.v', 'TokShift.v', 'TokResume.v', 'Engine.v', 'EngineRestart.v', 'Model.v', 'Properties/C04.v']
TECHNIQUE = ('Coq simulation proof that the tokenizer model commutes with a shift of the start line (the fact behind moving copied nodes by a line offset) '
             '+ translation validation of edit histories: the tree returned by the incremental parser is compared, step by step, with the fresh parse of the '
             'Gallina pipeline model (Lines -> Tokenizer -> Engine, extracted) and with the implementation\'s own fresh parse')
EXPLANATION = ('Proved for all inputs on the tokenizer model (Properties/C04.v, TokShift.tok_shift): tokenizing the same lines with the start line moved by k returns the same '
               'tokens with k added to every line number, and the same error otherwise - the fact that lets DiffParser move copied nodes by a line offset and '
               're-tokenize a region with start_pos=(line_offset+1, 0); and (TokResume.tok_resume_points) at every line boundary the model lists as clean (no open bracket, '
               'string, f-string or pending prefix, at a logical line start) the tokens of the whole input are the tokens of the lines before it (minus closing DEDENTs and '
               'ENDMARKER) followed by the tokens of the remaining lines tokenized on their own from that line with the indentation stack reached there and '
               'is_first_token=False - the fact that lets DiffParser re-tokenize only a tail. Both are tied to the code by the tok stream and by the shift / resume streams of this '
               'check (the implementation tokenizer run at two start lines, and restarted at every clean boundary the extracted model reports). DiffParser/_NodesTree/difflib are not modelled in Gallina (DESIGN.md section 9). The reference the implementation is validated against is '
               'the model pipeline parse_text, whose agreement with a fresh implementation parse is itself a correspondence stream of this check; every '
               'history step compares type/value/prefix/position of every node, parent links, get_code and the used-names index.')
LEVEL_TEXT = EXPLANATION
ASSUMPTIONS = ['of the locality facts that justify node copying the tokenizer ones (tok_shift, tok_resume_points) and the independence of the engine from what the root frame already holds (engine_restart) are proved; that DiffParser only restarts at clean boundaries, statement locality of the engine and the _NodesTree bookkeeping are not, and the copy logic is decided by validation of histories']

FRAGS = [' ', '\t', '\n', '\r', '\f', '\x0b', '\x1c', '\x1d', '\x1e', '\x85', '\u2028', '\u2029', '\n\f\n', '# c\x85d', '\f\n   ', 'f"', 'F"""', "fr'", "RF'''", '"', '"""', "'", "'''", ';', ' some_random_word ', '\\', '#',
         'def ', 'class ', 'if ', 'else', 'elif ', 'for ', 'while ', 'try', 'except', 'finally', 'with ', 'return ', 'lambda ', 'import ',
         'from ', 'pass', '(', ')', '[', ']', '{', '}', ':', ',', '=', '@', '    ', 'async ', 'await ', 'yield ', '﻿', 'x', '1']


def edit(r, lines, near_end=False):
    lines = list(lines)
    k = r.random()
    if not lines:
        return [r.choice(gens.VALID)]
    i = r.randrange(len(lines))
    if near_end and r.random() < 0.6:
        i = max(0, len(lines) - 1 - r.choice([0, 0, 1, 2]))
    if k < 0.2:
        del lines[i]
    elif k < 0.4:
        lines.insert(r.randrange(len(lines) + 1), lines[i])
    elif k < 0.7:
        l = lines[i]
        p = r.randrange(len(l) + 1)
        q = min(len(l), p + r.choice([0, 0, 1, 3]))
        lines[i] = l[:p] + r.choice(FRAGS) + l[q:]
    elif k < 0.8:
        lines[i] = r.choice(['  ', '    ', '\t', '']) + lines[i].lstrip(' \t')
    elif k < 0.88:
        nlc = '\r' if lines[i].endswith('\r') else '\r\n' if lines[i].endswith('\r\n') else '\n'
        lines.insert(i, r.choice(gens.VALID).replace('\n', nlc))
    elif k < 0.94:
        lines[i] = lines[i].rstrip('\r\n')          # join with next / missing final newline
    else:
        j = r.randrange(len(lines))
        a, b = min(i, j), max(i, j)
        del lines[a:b]
    from parso.utils import split_lines
    return split_lines(''.join(lines), keepends=True)


TAILS = ['doc = """first\nsecond"""', "s = '''a\nb\nc'''", 's = "a\\\nb"', 'x = (1,\n     2)', 'f(a,\n  b)', 'x = [\n 1,\n 2]', 'y = f"""{a}\n{b}"""',
         'z = 1 + \\\n    2', '"""module\ndoc"""', 'def g():\n    return """a\n    b"""', 'class K:\n    x = (1,\n         2)', "t = rb'''x\ny'''", 'if a:\n    b = {1:\n         2}']


BODIES_OK = ['pass', 'return 1', 'x = 1\ny = 2', 'self.a = a', 'for i in j:\n    k(i)', 'if a:\n    b\nelse:\n    c', 'yield x', 'with p as q:\n    r', 'try:\n    s\nfinally:\n    t',
             '"""doc"""\nreturn None', 'x = [\n    1,\n    2,\n]', 's = """a\nb"""', 'z = f"{a}"']
BODIES_OPEN = ['self.x = (\nself.version_info = version_info', 'return [\n1,', 'foo(a,\nb', 'x = {\n', 's = """never closed', "t = 'no end", 'if a:', 'y = 1 +', 'f"{a', 'call(b)[', 'lambda:',
               'x = (1,\n     2', 'for i in (\n', 'class', 'def', 'z = \\', '@', 'print(a, b,']
BLANKS = ['', '\n', '\n\n', '# c\n', '\n    # indented comment\n', '    \n']


def gen_history_struct(r):
    """a class / module of small definitions, some of whose bodies end in an unfinished statement (open bracket, unterminated string, dangling
    operator), so that the line break after them lives in the prefix of what follows; edits happen BELOW such a block, are undone, blocks are
    appended, removed and swapped - under LF, CRLF and bare CR line ends"""
    from parso.utils import split_lines
    in_class = r.random() < 0.7
    ind = '    ' if in_class else ''

    def block(i):
        body = r.choice(BODIES_OPEN) if r.random() < 0.4 else r.choice(BODIES_OK)
        head = r.choice(['def m%d(self):' % i, 'def m%d(self, a=1):' % i, 'async def m%d(self):' % i, '@dec\n' + ind + 'def m%d(self):' % i, 'class K%d:' % i]) if r.random() < 0.85 \
            else r.choice(['if c%d:' % i, 'for v%d in w:' % i, 'while c%d:' % i])
        lines = [ind + head] + [ind + '    ' + l for l in body.split('\n')]
        return '\n'.join(lines) + '\n' + r.choice(BLANKS)
    blocks = [block(i) for i in range(r.randint(2, 5))]

    def render(bl):
        t = ('class C:\n' if in_class else '') + ''.join(bl)
        return t
    hist = [render(blocks)]
    saved = [list(blocks)]
    for step in range(r.randint(3, 6)):
        k = r.random()
        bl = list(blocks)
        i = r.randrange(len(bl))
        if k < 0.3:
            # change something inside a later block
            j = r.randrange(i, len(bl))
            ls = bl[j].split('\n')
            q = r.randrange(len(ls))
            ls[q] = ls[q] + r.choice([' # edited', ' + 1', '', 'x', ')', ' (']) if ls[q].strip() else ind + '    pass'
            bl[j] = '\n'.join(ls)
        elif k < 0.45:
            bl = saved[r.randrange(len(saved))]          # undo
        elif k < 0.65:
            bl.append(block(10 + step))
        elif k < 0.75:
            bl.insert(i, block(20 + step))
        elif k < 0.85 and len(bl) > 1:
            del bl[i]
        elif k < 0.93 and len(bl) > 1:
            j = r.randrange(len(bl))
            bl[i], bl[j] = bl[j], bl[i]
        else:
            bl[i] = block(30 + step)
        blocks = list(bl)
        saved.append(list(bl))
        hist.append(render(blocks))
    nl = r.choice(['\n', '\n', '\r\n', '\r', '\r'])
    if nl != '\n':
        hist = [h.replace('\n', nl) for h in hist]
    if r.random() < 0.2:
        hist = [h.rstrip('\r\n') for h in hist]
    return hist


TRIVIA = ['', '\n', '# c\n', '# c', '\n\n', '  \n', '    # x\n\n', '# a\n# b', '# a\n# b\n', '\\\n', '\f\n', 'x = 1\n', 'x = 1', 'if a:\n    b\n', '"doc"\n', 'pass  # t\n',
          '# coding: utf-8\n', '\n# c\n\n']


def gen_history_trivia(r):
    """files that are (almost) nothing but prefix - comments, blank lines, white space, with or without a byte order mark - and gain or lose their only
    statement: the end marker then carries the whole text as its prefix and its position has to be computed from it"""
    bom = r.random() < 0.5
    hist = []
    for _ in range(r.randint(3, 6)):
        t = ''.join(r.choice(TRIVIA) for _ in range(r.randint(1, 3)))
        if bom and r.random() < 0.85:
            t = '\ufeff' + t
        hist.append(t)
    nl = r.choice(['\n', '\n', '\r\n', '\r'])
    if nl != '\n':
        hist = [h.replace('\n', nl) for h in hist]
    return hist


def gen_history(r):
    k = r.random()
    if k < 0.3:
        return gen_history_struct(r)
    if k < 0.4:
        return gen_history_trivia(r)
    kind, code = gens.text_case(r.random(), 'c04-seed', 0, ['valid', 'corpus', 'oneliner', 'semantic'])
    from parso.utils import split_lines
    code = code[:3000]
    tail_mode = r.random() < 0.25
    if tail_mode:
        # the file ends, without a final line break, in a statement whose last token or bracket spans several lines
        if code and not code.endswith(('\n', '\r')):
            code += '\n'
        code = (code if r.random() < 0.7 else '') + r.choice(TAILS) + r.choice(['', '', '', ' ', '  # c'])
    nl = r.random()
    if nl < 0.25:
        code = code.replace('\r\n', '\n').replace('\n', '\r')        # classic Mac line breaks
    elif nl < 0.4:
        code = code.replace('\r\n', '\n').replace('\n', '\r\n')
    lines = split_lines(code, keepends=True)
    hist = [''.join(lines)]
    saved = []
    for _ in range(r.randint(3, 7)):
        if saved and r.random() < 0.15:
            lines = r.choice(saved)           # undo an earlier edit
        else:
            saved.append(lines)
            for _ in range(r.choice([1, 1, 2, 4])):
                lines = edit(r, lines, tail_mode)
        hist.append(''.join(lines))
    return hist


def used_names_ok(m):
    names = []

    def rec(n):
        if hasattr(n, 'children'):
            for c in n.children:
                rec(c)
        elif n.type == 'name':
            names.append(n)
    rec(m)
    un = m.get_used_names()
    flat = [x for k, l in un.items() for x in l]
    if sorted(map(id, flat)) != sorted(map(id, names)):
        return False
    return all(x.value == k for k, l in un.items() for x in l)


def check_history(ctx, v, hist, index, drv_reqs):
    g = parso.load_grammar(version=v)
    path = '/verif/.work/c04-virtual-%d.py' % index
    pcache.parser_cache.pop(g._hashed, None)
    for step, text in enumerate(hist):
        ctx.count('history-steps')
        try:
            m = g.parse(text, diff_cache=True, path=path)
        except Exception as e:
            ctx.violation('C04:diff-parse-raises:' + preds.crash_sig(e), dict(kind='history', version=v, steps=hist[:step + 1], failing_step=step))
            return
        fresh = g.parse(text)
        sig = None
        if preds.sig_tree(m) != preds.sig_tree(fresh):
            sig = 'C04:tree-differs-from-fresh-parse'
        elif not preds.parents_ok(m) or m.parent is not None:
            sig = 'C04:parent-links-inconsistent'
        elif m.get_code() != text:
            sig = 'C04:code-not-reproduced'
        elif m.end_pos != fresh.end_pos:
            sig = 'C04:end-pos'
        elif not used_names_ok(m):
            sig = 'C04:used-names-index-stale'
        if sig:
            ctx.violation(sig, dict(kind='history', version=v, steps=hist[:step + 1], failing_step=step))
            return
        drv_reqs.append((impl.req_text(v, True, text), impl.ser(m, impl.meta()['grammars'][v]['rid']), v, hist[:step + 1]))
    pcache.parser_cache.pop(g._hashed, None)


def shift_invariance(ctx, n):
    """the implementation tokenizer at start line 1 and at start line 1 + k: same tokens, lines moved by k (TokShift.tok_shift on the code)"""
    from parso.python.tokenize import tokenize_lines
    from parso.utils import split_lines, parse_version_string
    for i in range(n):
        r = gens.rng(ctx.seed, 'c04-shift', i)
        kind, code = gens.text_case(r.random(), 'c04-shift', i, None)
        v = r.choice(streams.versions())
        k = r.choice([1, 2, 7, 40, 1000])
        lines = split_lines(code[:2000], keepends=True)
        first = r.random() < 0.5
        inds = r.choice([[0], [0], [0, 4], [0, 2, 6]])
        ctx.count('shift-cases')

        def toks(sl):
            try:
                return [(t.type.name, t.string, t.start_pos, t.prefix) for t in
                        tokenize_lines(list(lines), version_info=parse_version_string(v), indents=list(inds), start_pos=(sl, 0), is_first_token=first)]
            except Exception as e:
                return preds.crash_sig(e)
        a, b2 = toks(1), toks(1 + k)
        exp = a if isinstance(a, str) else [(t, s_, (p[0] + k, p[1]), pre) for t, s_, p, pre in a]
        if exp != b2:
            ctx.violation('C04:tokenizer-not-shift-invariant', dict(kind='shift', version=v, code=code[:2000], k=k, first=first, indents=inds))


def resume_at_clean_boundaries(ctx, n, drv):
    """the implementation tokenizer restarted at every clean line boundary the extracted model reports (TokResume.tok_resume_points on the code)"""
    from parso.python.tokenize import tokenize_lines
    from parso.utils import split_lines, parse_version_string
    cases = []
    for i in range(n):
        r = gens.rng(ctx.seed, 'c04-resume', i)
        kind, code = gens.text_case(r.random(), 'c04-resume', i, None)
        v = r.choice(streams.versions())
        lines = split_lines(code[:2500], keepends=True)
        first = r.random() < 0.7
        sl = r.choice([1, 1, 5])
        inds = r.choice([[0], [0], [0], [0, 4]])
        cases.append((v, lines, sl, inds, first, code[:2500]))
    outs = drv.run([impl.req_resume(v, lines, (sl, 0), inds, first) for v, lines, sl, inds, first, _ in cases])

    def toks(v, lines, sl, inds, first):
        try:
            return [(t.type.name, t.string, t.start_pos, t.prefix) for t in
                    tokenize_lines(list(lines), version_info=parse_version_string(v), indents=list(inds), start_pos=(sl, 0), is_first_token=first)]
        except Exception as e:
            return preds.crash_sig(e)
    for (v, lines, sl, inds, first, code), o in zip(cases, outs):
        ctx.count('resume-cases')
        pts = o.split('|') if o else []
        whole = toks(v, lines, sl, inds, first)
        if isinstance(whole, str):
            continue
        idx = [i for i, p in enumerate(pts) if p != '-' and i + 1 < len(lines)]
        r = gens.rng(ctx.seed, 'c04-resume-pick', len(code))
        for i in (idx if len(idx) <= 6 else r.sample(idx, 6)):
            inds1 = [int(x) for x in pts[i].split(',')] if pts[i] else []
            head = toks(v, lines[:i + 1], sl, inds, first)
            rest = toks(v, lines[i + 1:], sl + i + 1, inds1, False)
            ctx.count('resume-points')
            ctx.nontrivial(('resume', v, code, i))
            ok = (not isinstance(head, str) and not isinstance(rest, str) and len(head) >= len(inds1)
                  and [t[0] for t in head[len(head) - len(inds1):]] == ['DEDENT'] * (len(inds1) - 1) + ['ENDMARKER']
                  and head[:len(head) - len(inds1)] + rest == whole)
            if not ok:
                ctx.violation('C04:tokenizer-not-resumable-at-clean-boundary',
                              dict(kind='resume', version=v, code=code, start_line=sl, indents=inds, first=first, boundary_after_line_index=i, indents_there=inds1))
                break


def run(ctx, b, drv):
    pend = base.Pending(ctx)
    base.obligations(ctx, b, pend, VFILES)
    shift_invariance(ctx, base.scale(ctx, 400))
    resume_at_clean_boundaries(ctx, base.scale(ctx, 400), drv)
    base.mismatches(ctx, pend, streams.run_parse(ctx, base.scale(ctx, 800), drv), None)
    n = base.scale(ctx, 600)
    reqs = []
    for i in range(n):
        r = gens.rng(ctx.seed, 'histories', i)
        v = r.choice(streams.versions())
        hist = gen_history(r)
        ctx.count('histories')
        ctx.nontrivial(('hist', tuple(hist)))
        if i == 0:
            ctx.sample(dict(stream='histories', version=v, steps=[h[:120] for h in hist]))
        check_history(ctx, v, hist, i, reqs)
    outs = drv.run([q[0] for q in reqs])
    mm = []
    for (rq, ser, v, hist), o in zip(reqs, outs):
        ctx.count('history-steps-vs-model')
        if ser != o:
            mm.append(streams.Mismatch('histories-vs-model', 0, dict(version=v, steps=hist), ser, o))
    # a diff-parsed tree that differs from the model's fresh parse (while the implementation's fresh parse agreed) is a violation with the history as replay
    for m in mm[:5]:
        ctx.violation('C04:tree-differs-from-model-fresh-parse', dict(m.replay(), kind='history'))
    ctx.cov['programs'] = n
    pend.flush()
    ctx.cov['rule'] = ('edit histories of 4-8 texts (line delete/duplicate/insert, in-line fragment splice, re-indent, join lines, block delete, undo) over valid/corpus/one-liner '
                       'seeds x 9 versions, parsed under one path with diff_cache=True; distinct = distinct history')


def replay(ctx, rp):
    """re-run a recorded edit history against the current /repo"""
    if rp.get('kind') == 'resume':
        return 'resume-replay: tokenize_lines of the whole vs of lines[:i+1] and lines[i+1:] restarted with indents_there, see the replay fields'
    if rp.get('kind') == 'shift':
        return 'shift-replay: tokenize_lines(split_lines(code), start_pos=(1,0)) vs start_pos=(1+k,0), see the replay fields'
    if rp.get('kind') != 'history' or not rp.get('steps'):
        return 'not-an-input-replay: run ./check C04 to re-decide'
    before = len(ctx.violations)
    check_history(ctx, rp.get('version', '3.10'), rp['steps'], 999999, [])
    new = ctx.violations[before:]
    return new[0]['signature'] if new else None
