import ast as pyast, collections
from harness.props import base
from harness import gens, streams, impl, preds, translator
import parso
from parso.python.parser import Parser
from parso.python.tokenize import PythonToken
from parso.python.token import PythonTokenTypes as T

LEVEL = 'proof'
TECHNIQUE = ('Coq theorem `complete` (every derivation of an LL(1) plan table is accepted and collapses to the documented tree) for an abstract '
             'plan-driven engine + random derivations fed to the implementation and to the Gallina engine model, with arc coverage')
EXPLANATION = ('Three layers, all closed under the global context: LL1.complete (an abstract plan-driven stack engine accepts every derivation, given table '
               'hypotheses), LL1Inst.tables_complete (verified boolean checkers establish those hypotheses; table obligation tables_ok by vm_compute for the '
               'automata, plan table and a FOLLOW candidate of every shipped grammar, all rules), LL1Engine.engine_complete (the fuelled add_token/feed/finish of '
               'Engine.v - the extracted model compared with parso - realises the abstract engine): strict parsing of any sentence returns convert_node of the '
               'collapsed derivation or a conversion failure, never a syntax error; the recovering parser returns the same tree (C07 simulation). Each '
               'gen/LL1_<v>.v also proves a concrete non-vacuity example. Tie to the code: the plans and derive/ptoks streams (model = implementation on '
               'the plan tables and on random derivations, strict and recovering, with arc coverage). Rendering tokens as text is outside the theorem.')
LEVEL_TEXT = EXPLANATION

VAL = {'NAME': 'x', 'NUMBER': '1', 'STRING': '"s"', 'NEWLINE': '\n', 'INDENT': '', 'DEDENT': '', 'ENDMARKER': '',
       'FSTRING_START': 'f"', 'FSTRING_STRING': 'a', 'FSTRING_END': '"'}


class Gen:
    def __init__(self, version, rnd):
        self.g = parso.load_grammar(version=version)._pgen_grammar
        self.dfas = self.g.nonterminal_to_dfas
        self.rnd = rnd
        big = 10 ** 9
        self.cost_rule = {r: big for r in self.dfas}
        self.cost_state = {}
        changed = True
        while changed:
            changed = False
            for r, states in self.dfas.items():
                for s in states:
                    best = 0 if s.is_final else big
                    for l, nx in s.arcs.items():
                        c = (self.cost_rule[l] if l in self.dfas else 1) + self.cost_state.get(id(nx), big)
                        best = min(best, c)
                    if best < self.cost_state.get(id(s), big):
                        self.cost_state[id(s)] = best
                        changed = True
                c = self.cost_state.get(id(states[0]), big)
                if c < self.cost_rule[r]:
                    self.cost_rule[r] = c
                    changed = True
        self.arc_use = collections.Counter()

    def derive(self, rule, budget):
        s = self.dfas[rule][0]
        kids = []
        while True:
            opts = sorted(s.arcs.items())
            if budget[0] <= 0:
                if s.is_final:
                    break
                l, nx = min(opts, key=lambda o: (self.cost_rule[o[0]] if o[0] in self.dfas else 1) + self.cost_state[id(o[1])])
            else:
                if s.is_final and (not opts or self.rnd.random() < 0.45):
                    break
                w = [1.0 / (1 + self.arc_use[(id(s), l)]) for l, _ in opts]
                l, nx = self.rnd.choices(opts, weights=w)[0]
            self.arc_use[(id(s), l)] += 1
            budget[0] -= 1
            kids.append(self.derive(l, budget) if l in self.dfas else ('L', l))
            s = nx
        return ('N', rule, kids)

    def reachable_arcs(self, start):
        seen = set()
        todo = [start]
        n = 0
        while todo:
            r = todo.pop()
            if r in seen:
                continue
            seen.add(r)
            for s in self.dfas[r]:
                n += len(s.arcs)
                for l in s.arcs:
                    if l in self.dfas:
                        todo.append(l)
        return n


def yield_(t, out):
    if t[0] == 'L':
        out.append(t[1])
    else:
        for k in t[2]:
            yield_(k, out)


def token_of(l, i):
    if l[0].isalpha():
        return getattr(T, l), VAL[l]
    val = pyast.literal_eval(l)
    return (T.NAME if (val[0].isalpha() or val[0] == '_') else T.OP), val


def collapse(t):
    if t[0] == 'L':
        l = t[1]
        return ('leaf', VAL[l] if l[0].isalpha() else pyast.literal_eval(l))
    return (t[1], [collapse(k) for k in t[2]])


def finish(t, top=True):
    if t[0] == 'leaf':
        return t
    rule, ck = t
    ck = [finish(k, False) for k in ck]
    if len(ck) == 1 and not top:
        return ck[0]
    if rule == 'suite':
        ck = [ck[0]] + ck[2:-1]
    if rule in ('lambdef', 'lambdef_nocond'):
        mid = ck[1:-2]
        if len(mid) == 1 and mid[0][0] == 'varargslist':
            ck = ck[:1] + mid[0][1] + ck[-2:]
        rule = 'lambdef'
    if rule == 'parameters':
        mid = ck[1:-1]
        if len(mid) == 1 and mid[0][0] == 'typedargslist':
            ck = ck[:1] + mid[0][1] + ck[-1:]
    return (rule, ck)


def actual(n):
    if hasattr(n, 'children'):
        ch = []
        for c in n.children:
            if c.type == 'param':
                ch += [actual(x) for x in c.children]
            else:
                ch.append(actual(c))
        return (n.type, ch)
    return ('leaf', n.value)


def first_follow_ok(pg, start):
    """no nullable rule; no FIRST/FOLLOW conflict in a final state with outgoing transitions (for rules reachable from start)"""
    from parso.pgen2.generator import ReservedString
    dfas = pg.nonterminal_to_dfas
    name = lambda t: t.value if isinstance(t, ReservedString) else t.name
    reach = set()
    st = [start]
    while st:
        A = st.pop()
        if A in reach:
            continue
        reach.add(A)
        for s in dfas[A]:
            st.extend(s.nonterminal_arcs)
    if any(dfas[A][0].is_final for A in reach):
        return 'nullable-rule'
    follow = {A: set() for A in reach}
    changed = True
    while changed:
        changed = False
        for A in reach:
            for s in dfas[A]:
                for B, nxt in s.nonterminal_arcs.items():
                    add = set(name(t) for t in nxt.transitions)
                    if nxt.is_final:
                        add |= follow[A]
                    if not add <= follow[B]:
                        follow[B] |= add
                        changed = True
    for A in reach:
        for s in dfas[A]:
            if s.is_final and set(name(t) for t in s.transitions) & follow[A]:
                return 'first-follow-conflict:%s' % A
    return None


def literal_sentences(ctx):
    """every spelling of a number / string literal as the sentence `x = <literal>` (and as eval_input): accepted strictly, one leaf of the right
    type carrying exactly the spelling - the part of 'every sentence' that depends on how the tokenizer classifies a terminal"""
    import parso
    for v in streams.versions():
        g = parso.load_grammar(version=v)
        # strings continued over physical lines, under every line-break convention (the sentence then uses that convention throughout)
        cont = []
        for nl in ('\n', '\r\n', '\r'):
            for pfx in ('', 'b', 'r', 'Rb', 'u'):
                for q in ("'", '"'):
                    cont.append(pfx + q + 'abc\\' + nl + 'def' + q)
                    cont.append(pfx + q + '\\' + nl + q)
                    cont.append(pfx + q * 3 + 'a' + nl + 'b\\' + nl + 'c' + q * 3)
        for kind, lits in (('number', gens.NUMBERS), ('string', gens.STRINGS + cont)):
            for lit in lits:
                nl_ = '\r\n' if '\r\n' in lit else '\r' if '\r' in lit else '\n'
                for code, start in (('x = %s%s' % (lit, nl_), 'file_input'), (lit, 'eval_input')):
                    ctx.count('c06-literals')
                    sig = None
                    try:
                        m = g.parse(code, error_recovery=False, start_symbol=start)
                        leaves = [l for l in preds.leaves_rec(m, []) if l.type not in ('newline', 'endmarker', 'operator', 'name')]
                        vals = ''.join(l.value for l in leaves)
                        if [l.type for l in leaves] != [kind] * len(leaves) or vals.replace(' ', '') != lit.replace(' ', ''):
                            sig = 'C06:literal-sentence-wrong-leaves'
                    except parso.ParserSyntaxError:
                        sig = 'C06:literal-sentence-rejected'
                    except Exception as e:
                        sig = preds.crash_sig(e)
                    if sig:
                        ctx.violation(sig, dict(kind='input', version=v, input_text=code, start_symbol=start, observed=sig))
                        break


def fstring_sentences(ctx):
    """every spelling of an f-string start (prefix letters in both orders and cases) x quote style, on one line and over several lines: accepted
    strictly, and the text is one fstring node from its start leaf to its end leaf"""
    import itertools, parso
    prefixes = set()
    for base_ in ['f', 'fr', 'rf']:
        for combo in itertools.product(*[(c, c.upper()) for c in base_]):
            prefixes.add(''.join(combo))
    bodies = [('a{b}c', False), ('{b!r:>{w}}', False), ('', False), ('{{}}', False), ('a\n{b}\nc', True), ('{b\n}', True), ('x\\\ny', False)]
    for v in streams.versions():
        g = parso.load_grammar(version=v)
        for pfx in sorted(prefixes):
            for q in ("'", '"', "'" * 3, '"' * 3):
                for body, multiline in bodies:
                    if multiline and len(q) == 1:
                        continue
                    lit = pfx + q + body + q
                    code = 'x = %s\n' % lit
                    ctx.count('c06-fstrings')
                    sig = None
                    try:
                        m = g.parse(code, error_recovery=False)
                        nodes = [n for n in preds.iter_nodes(m) if n.type == 'fstring']
                        if len(nodes) != 1 or nodes[0].get_code(include_prefix=False) != lit or \
                                nodes[0].children[0].type != 'fstring_start' or nodes[0].children[-1].type != 'fstring_end':
                            sig = 'C06:fstring-sentence-wrong-tree'
                    except parso.ParserSyntaxError:
                        sig = 'C06:fstring-sentence-rejected'
                    except Exception as e:
                        sig = preds.crash_sig(e)
                    if sig:
                        ctx.violation(sig, dict(kind='input', version=v, input_text=code, observed=sig))
                        break


def name_sentences(ctx):
    """identifiers from every part of the code space: for every block of 0x800 code points the first and the last character that may start an identifier
    and the first and last that may only continue one (str.isidentifier of the running interpreter, the test parso itself applies after its Name regex):
    `<name> = 1` is accepted strictly and holds exactly one name leaf with that spelling, as target and as call argument"""
    import parso
    vs = streams.versions()
    names = []
    for blk in range(0, 0x110000, 0x800):
        starts = [cp for cp in range(blk, blk + 0x800) if not 0xD800 <= cp <= 0xDFFF and chr(cp).isidentifier()]
        conts = [cp for cp in range(blk, blk + 0x800) if not 0xD800 <= cp <= 0xDFFF and not chr(cp).isidentifier() and ('a' + chr(cp)).isidentifier()]
        for cps, mk in ((starts, lambda c: c), (starts, lambda c: 'v' + c + 'w'), (conts, lambda c: 'a' + c)):
            for cp in ([cps[0], cps[-1]] if len(cps) > 1 else cps):
                names.append(mk(chr(cp)))
    import unicodedata
    for k, nm in enumerate(dict.fromkeys(names)):
        if unicodedata.normalize('NFKC', nm) != nm and not unicodedata.normalize('NFKC', nm).isidentifier():
            continue
        v = vs[(k + int(ctx.seed or 0)) % len(vs)]
        g = parso.load_grammar(version=v)
        code = '%s = f(%s)\n' % (nm, nm)
        ctx.count('c06-names')
        sig = None
        try:
            m = g.parse(code, error_recovery=False)
            leaves = [l for l in preds.iter_nodes(m) if l.type == 'name']
            if [l.value for l in leaves] != [nm, 'f', nm]:
                sig = 'C06:name-sentence-wrong-tree'
        except parso.ParserSyntaxError:
            sig = 'C06:name-sentence-rejected'
        except Exception as e:
            sig = preds.crash_sig(e)
        if sig:
            ctx.nontrivial(('c06-name', nm))
            ctx.violation(sig + ':U+%04X' % max(map(ord, nm)), dict(kind='input', version=v, input_text=code, observed=sig))
            break
        ctx.nontrivial(('c06-name', nm))


def run(ctx, b, drv):
    pend = base.Pending(ctx)
    ll1ok = base.obligations(ctx, b, pend, ['LL1.v', 'LL1Inst.v', 'LL1Engine.v', 'EngineSim.v', 'Engine.v', 'Properties/C06.v'] +
                              ['gen/LL1_%s.v' % impl.vn(v) for v in streams.versions()])
    base.mismatches(ctx, pend, streams.run_plans(ctx, drv), None)
    # sentences given as TEXT (through the tokenizer): the model pipeline and the implementation must agree, strict and recovering
    base.mismatches(ctx, pend, streams.run_parse(ctx, base.scale(ctx, 500), drv, stream='c06-text', kinds=['semantic', 'valid', 'fstrings', 'derived']), None)
    literal_sentences(ctx)
    fstring_sentences(ctx)
    name_sentences(ctx)
    per = base.scale(ctx, 60) if ll1ok else base.scale(ctx, 3000)
    TY = ['STRING', 'NUMBER', 'NAME', 'ERRORTOKEN', 'NEWLINE', 'INDENT', 'DEDENT', 'ERROR_DEDENT', 'FSTRING_STRING', 'FSTRING_START',
          'FSTRING_END', 'OP', 'ENDMARKER']
    cov = {}
    for v in streams.versions():
        rnd = gens.rng(ctx.seed, 'derive', v)
        G = Gen(v, rnd)
        rid = impl.meta()['grammars'][v]['rid']
        for start in ('file_input', 'eval_input'):
            sig = first_follow_ok(G.g, start)
            ctx.add_obligation('table:%s/%s has no nullable rule and no FIRST/FOLLOW conflict' % (v, start), sig is None, sig or '')
            if sig:
                pend.add('C06:' + sig, dict(kind='theorem', obligation='gen/LL1_%s.v:ll1_tables_ok (FIRST/FOLLOW conflict recomputed in the harness)' % impl.vn(v), version=v, start=start, conflict=sig))
        reqs, cases = [], []
        D = gens.Deriver(v)
        for start in ('file_input', 'eval_input'):
            # one derivation through every arc of every rule reachable from the start rule, then random ones
            todo = [D.derive_with_arc(rnd, start, arc, [rnd.choice([0, 0, 6])]) for arc in D.all_arcs(start)]
            todo = [d for d in todo if d is not None] + [G.derive(start, [rnd.randint(5, 120)]) for i in range(per)]
            for d in todo:
                labs = []
                yield_(d, labs)
                exp = finish(collapse(d))
                toks = [PythonToken(*token_of(l, k), (1, k), '') for k, l in enumerate(labs)]
                for rec in ([False, True] if start == 'file_input' else [False]):
                    ctx.count('derive')
                    ctx.nontrivial(('derive', v, start, tuple(labs)))
                    p = Parser(G.g, error_recovery=rec, start_nonterminal=start)
                    try:
                        m = p.parse(tokens=iter(toks))
                        act = actual(m)
                        ser = impl.ser(m, rid)
                    except Exception as e:
                        ctx.violation('C06:sentence-rejected:%s:recover=%s' % (type(e).__name__, rec),
                                      dict(kind='input', version=v, start=start, recover=rec, labels=labs,
                                           error=str(getattr(e, 'error_leaf', e))[:200]))
                        continue
                    if act != exp:
                        ctx.violation('C06:tree-is-not-the-derivation:recover=%s' % rec,
                                      dict(kind='input', version=v, start=start, recover=rec, labels=labs))
                    reqs.append('ptoks %s %d %d %d %s' % (impl.vn(v), int(rec), rid[start], len(toks), ' '.join(
                        '%d %d %d %s %s' % (TY.index(t.type.name), t.start_pos[0], t.start_pos[1], impl.enc_str(t.string), impl.enc_str(t.prefix)) for t in toks)))
                    cases.append((v, start, rec, labs, ser))
        outs = drv.run(reqs)
        mm = []
        for (vv, start, rec, labs, ser), o in zip(cases, outs):
            ctx.count('derive-model')
            if ser != o:
                mm.append(streams.Mismatch('derive', 0, dict(version=vv, start=start, recover=rec, labels=labs), ser, o))
        base.mismatches(ctx, pend, mm, None)
        cov[v] = '%d arcs used of %d reachable from file_input / eval_input (every arc is aimed at once)' % (len(set(G.arc_use) | set(D.arc_use)), len(set(D.all_arcs('file_input')) | set(D.all_arcs('eval_input'))))
    ctx.cov['arc_coverage'] = cov
    ctx.sample(dict(stream='derive', version=v, labels=labs[:40]))
    pend.flush()
    ctx.cov['rule'] = ('one derivation through every arc of every rule automaton of each grammar plus random derivations (file_input strict+recover, eval_input strict), steered to rarely used arcs, '
                       'rendered as token streams; distinct = distinct label sequence')
