from harness.props import base
from harness import gens, streams, impl, preds, refpy
from parso.python.tokenize import tokenize
from parso.utils import parse_version_string

LEVEL = 'other'
TECHNIQUE = ('finite exhaustive Coq sweep of the operator/number token regexes against reference regexes (bound stated) + tokenizer model correspondence + '
             'differential comparison with the tokenizers of CPython 3.6-3.13 on standard-library, generated and mutated programs')
EXPLANATION = ('CPython\'s tokenizers have no formal semantics here, so a full theorem is out of reach (DESIGN.md section 9): C10_partial. Decided by (1) the tok '
               'correspondence stream, which ties the implementation to the Gallina tokenizer the other theorems are about, and (2) differential testing '
               'against tokenize.tokenize of the reference interpreter of each version with the canonicalisation of the property (f-string = one STRING, '
               'COMMENT/NL dropped, INDENT/DEDENT/ENDMARKER by kind and order).')
LEVEL_TEXT = EXPLANATION
ASSUMPTIONS = ['3.14 is judged by the 3.13 interpreter', 'INDENT/DEDENT/ENDMARKER compared by kind and order only; 3.6 ASYNC/AWAIT count as NAME; a synthetic empty NEWLINE at EOF is matched with a missing one']


def mine(v, code):
    toks = list(tokenize(code, version_info=parse_version_string(v)))
    out = []
    i = 0
    while i < len(toks):
        t = toks[i]
        n = t.type.name
        if n == 'FSTRING_START':
            depth = 0
            j = i
            while j < len(toks):
                if toks[j].type.name == 'FSTRING_START':
                    depth += 1
                if toks[j].type.name == 'FSTRING_END':
                    depth -= 1
                    if depth == 0:
                        break
                j += 1
            out.append(['STRING', None, t.start_pos[0], t.start_pos[1]])
            i = j + 1
            continue
        s = t.string
        if n in ('INDENT', 'DEDENT', 'ENDMARKER'):
            s = ''
        out.append([n, s if n != 'STRING' else None, t.start_pos[0], t.start_pos[1]])
        i += 1
    return out


def norm(seq):
    out = []
    for n, s, l, c in seq:
        if n in ('ASYNC', 'AWAIT'):
            n = 'NAME'
        if n in ('DEDENT', 'ENDMARKER', 'INDENT'):
            out.append((n,))
        elif n == 'NEWLINE':
            if s == '':
                continue          # synthetic NEWLINE at EOF (CPython) / missing one (parso)
            out.append((n, l, c))
        else:
            out.append((n, s, l, c))
    return out


def compare(v, code, ref):
    try:
        b = norm(mine(v, code))
    except Exception as e:
        return preds.crash_sig(e)
    a = norm(ref)
    if a == b:
        return None
    k = next((i for i, (x, y) in enumerate(zip(a, b)) if x != y), min(len(a), len(b)))
    x = a[k] if k < len(a) else None
    y = b[k] if k < len(b) else None
    if x and y and x[0] == y[0] and x[1:2] == y[1:2]:
        return 'C10:token-position-differs:%s' % x[0]
    return 'C10:token-differs:cpython=%s:parso=%s' % (x[0] if x else None, y[0] if y else None)


NUM_ALPHABET = '0179_.eEjxboaf+-'
OP_ALPHABET = '!%&()*+,-./:;<=>@[]^`{|}~'


def word_sweep(ctx, v, alphabet, maxlen, stream):
    """search for a concrete word on which parso's token differs from the running CPython's (numbers / operators)"""
    import itertools, io, tokenize as pytok, warnings
    from parso.python.token import PythonTokenTypes as T
    vi = parse_version_string(v)
    found = 0
    for n in range(1, maxlen + 1):
        for tup in itertools.product(alphabet, repeat=n):
            w = ''.join(tup)
            if w == '<>':
                continue      # only an operator under `from __future__ import barry_as_FLUFL`; no ordinary program CPython accepts contains it
            ctx.count(stream)
            try:
                with warnings.catch_warnings():
                    warnings.simplefilter('ignore')
                    rt = [t for t in pytok.generate_tokens(io.StringIO(w + '\n').readline)
                          if t.type not in (pytok.NEWLINE, pytok.NL, pytok.ENDMARKER)]
                    ref_single = len(rt) == 1 and rt[0].string == w and rt[0].type in (pytok.NUMBER, pytok.OP)
                    if ref_single and rt[0].type == pytok.NUMBER:
                        compile('x = ' + w, '<c10>', 'exec')
            except BaseException:
                ref_single = False
            toks = [t for t in tokenize(w + '\n', version_info=vi) if t.type not in (T.NEWLINE, T.ENDMARKER)]
            mine_single = len(toks) == 1 and toks[0].string == w and toks[0].type in (T.NUMBER, T.OP) and \
                (not ref_single or (toks[0].type == T.NUMBER) == (rt[0].type == pytok.NUMBER))
            if ref_single and not mine_single:
                ctx.violation('C10:token-word-differs:%s' % ('number' if w[0] in '0123456789.' else 'operator'),
                              dict(kind='input', version=v, input_text='x = ' + w + '\n', word=w,
                                   cpython='one %s token' % pytok.tok_name[rt[0].type], parso=[(t.type.name, t.string) for t in toks]))
                found += 1
                if found >= 3:
                    return found
    return found


def op_words_all_versions(ctx, maxlen):
    """operator words against the tokenizer of EVERY reference interpreter (the property's domain is what the reference tokenizes without
    error, whether or not it compiles it): `:=` is two tokens for 3.6 / 3.7 and one from 3.8 on, `!` an operator only from 3.12 on, ...
    Words with a backtick (no Python 3 operator; CPython >= 3.12 reports stray characters as OP) and `<>` (barry_as_FLUFL) are left out."""
    import itertools
    from parso.python.token import PythonTokenTypes as T
    words = [''.join(t) for n in range(1, maxlen + 1) for t in itertools.product(OP_ALPHABET.replace('`', ''), repeat=n)]
    words = [w for w in words if '<>' not in w]
    skip = (T.NEWLINE, T.ENDMARKER, T.INDENT, T.DEDENT, T.ERROR_DEDENT)
    for v in streams.versions():
        refs = refpy.run_ref('ref_words.py', v, words)
        vi = parse_version_string(v)
        found = 0
        for w, ref in zip(words, refs):
            if ref is None or any(n != 'OP' for n, _ in ref):
                continue
            ctx.count('operator-words-all-versions')
            try:
                toks = [t for t in tokenize(w + '\n', version_info=vi) if t.type not in skip]
                mine = [(t.type.name, t.string) for t in toks]
            except Exception as e:
                mine = [('EXC', preds.crash_sig(e))]
            if mine != [('OP', s_) for _, s_ in ref]:
                ctx.violation('C10:token-word-differs:operator', dict(kind='input', version=v, input_text=w + '\n', word=w,
                                                                      cpython=[s_ for _, s_ in ref], parso=mine))
                found += 1
                if found >= 3:
                    break


def deep_brackets():
    """brackets nested 30 to 199 deep (the compiler's own limit is 200; the pure-Python tokenizer of the older references has none) whose contents run
    over several lines: the line breaks inside are no logical newlines however deep the nesting is and however many brackets were closed before"""
    out = []
    for d in (30, 64, 99, 100, 101, 102, 128, 150, 199):
        for op, cl in (('(', ')'), ('[', ']'), ('(', ')') if d % 2 else ('{', '}')):
            out.append(('deep:%d%s' % (d, op), 'a = ' + op * d + '1' + cl * (d - 1) + '\n + 2' + cl + '\nb = 3\n'))
            out.append(('deep2:%d%s' % (d, op), 'a = ' + op * d + '1\n' + cl * (d - 2) + '\n  , 2' + cl + '\n' + cl + '\nif a:\n    b = 3\n'))
    return out


def recheck(replay, text):
    """re-evaluate the comparison on a modified text (used by known-finding attribution)"""
    v = replay['version']
    ref = refpy.run_ref('ref_tok.py', v, [text])[0]
    if ref is None:
        return 'not-accepted'
    return compare(v, text, ref)


def run(ctx, b, drv):
    pend = base.Pending(ctx)
    allok = base.obligations(ctx, b, pend, ['Tok.v', 'Regex.v', 'Properties/C10.v'])
    import sys
    gv = '%d.%d' % sys.version_info[:2]
    # the same sweeps as the Coq theorems, on the implementation against the running CPython: this is what turns a
    # broken obligation into a concrete replay (full length when the obligation failed or in the thorough tier)
    deep = (not allok) or ctx.tier == 'thorough'
    word_sweep(ctx, gv, NUM_ALPHABET, 4 if deep else 3, 'number-words')
    word_sweep(ctx, gv, OP_ALPHABET, 3 if deep else 2, 'operator-words')
    op_words_all_versions(ctx, 3 if deep else 2)
    base.mismatches(ctx, pend, streams.run_tok(ctx, base.scale(ctx, 1500), drv), None)
    base.mismatches(ctx, pend, streams.run_re(ctx, base.scale(ctx, 3000), drv), None)
    nfiles = 12 if ctx.tier == 'quick' else 120
    ngen = 150 if ctx.tier == 'quick' else 2000
    for v in streams.versions():
        r = gens.rng(ctx.seed, 'c10', v)
        srcs = [(f, s) for f, s in refpy.stdlib_files(v, nfiles, r)]
        for i in range(ngen):
            kind, code = gens.text_case(ctx.seed, 'c10-%s' % v, i, ['valid', 'mutate', 'semantic'])
            if '\r' in code or '\x0c' in code:
                continue
            srcs.append(('gen:%s:%d' % (kind, i), code))
        for i in range(ngen):
            srcs.append(('derived:%d' % i, gens.derived(gens.rng(ctx.seed, 'derived-%s-%s' % ('C10', v), i), v)))
        srcs += deep_brackets()
        refs = refpy.run_ref('ref_tok.py', v, [s for _, s in srcs])
        old = None
        acc = 0
        for (name, code), ref in zip(srcs, refs):
            ctx.count('c10-programs')
            if ref is None:
                continue
            acc += 1
            ctx.nontrivial(('c10', v, code))
            sig = compare(v, code, ref)
            if sig:
                rp = dict(kind='input', version=v, source=name, input_text=code if len(code) < 4000 else None, observed=sig)
                if tuple(map(int, v.split('.'))) >= (3, 12):
                    # does the program need PEP 701 (is it rejected by the 3.11 tokenizer/compiler)?
                    rp['accepted_by_3_11'] = refpy.run_ref('ref_tok.py', '3.11', [code])[0] is not None
                ctx.violation(sig, rp)
        ctx.cov.setdefault('accepted_by_reference', {})[v] = '%d of %d' % (acc, len(srcs))
    ctx.sample(dict(stream='c10', version=v, program=srcs[-1][1][:200]))
    pend.flush()
    ctx.cov['rule'] = ('per version: standard-library files of the reference interpreter + generated valid/mutated programs, kept when the reference tokenizes and '
                       'compiles them; distinct = distinct accepted program')
