from harness.props import base
from harness import preds
LEVEL = 'other'
VFILES = ['Engine.v']
EXPLANATION = 'error listing: predicates (one per line, codes, ranges, required lines, purity, determinism) on implementation trees.'


def pred(v, code, m):
    return preds.c13_errors(v, code, m)


def run(ctx, b, drv):
    base.std_text_check(ctx, b, drv, VFILES, ['parse'], pred, 2000, 1000, 'c13')
