from harness.props import base
from harness import gens, preds, streams
LEVEL = 'other'
VFILES = ['Engine.v', 'Issues.v', 'Properties/C13.v']
EXPLANATION = 'error listing: predicates (one per line, codes, ranges, required lines, purity, determinism) on implementation trees.'


def pred(v, code, m):
    return preds.c13_errors(v, code, m)


def run(ctx, b, drv):
    pend0 = base.Pending(ctx)
    base.mismatches(ctx, pend0, streams.run_issues(ctx, base.scale(ctx, 1500), drv), None)
    pend0.flush()
    base.std_text_check(ctx, b, drv, VFILES, ['parse'], pred, 2000, 1000, 'c13')
    sweep(ctx)


def sweep(ctx):
    """every program of the INVALID and TARGETS corpora (each rule of errors.py fired or just missed; every expression shape in every target position),
    on one grammar version per program (all nine in the thorough tier)"""
    import parso
    vs = streams.versions()
    progs = gens.INVALID + gens.TARGETS
    for i, code in enumerate(progs):
        for v in (vs if ctx.tier != 'quick' else [vs[(i + ctx.seed) % len(vs)]]):
            ctx.count('c13-sweep')
            try:
                m = parso.load_grammar(version=v).parse(code)
                sig = pred(v, code, m)
            except RecursionError:
                continue
            except Exception as e:
                sig = preds.crash_sig(e)
            if sig:
                ctx.violation(sig, dict(kind='input', stream='c13-sweep', index=i, version=v, input_text=code, input_cps=[ord(c) for c in code], observed=sig))
