from harness.props import base
from harness import preds, streams
LEVEL = 'other'
VFILES = ['Engine.v', 'Issues.v', 'Properties/C13.v']
EXPLANATION = 'error listing: predicates (one per line, codes, ranges, required lines, purity, determinism) on implementation trees.'


def pred(v, code, m):
    return preds.c13_errors(v, code, m)


def run(ctx, b, drv):
    pend0 = base.Pending(ctx)
    base.mismatches(ctx, pend0, streams.run_issues(ctx, base.scale(ctx, 1500), drv), None)
    pend0.flush()
    base.std_text_check(ctx, b, drv, VFILES, ['parse'], pred, 2000, 1000, 'c13')
