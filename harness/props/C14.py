import ast, sys
from harness.props import base
from harness import gens, streams, impl, preds, refpy
import parso

LEVEL = 'other'
TECHNIQUE = 'differential comparison of the tree helpers with the ast module of the running CPython on programs that parse without error nodes'
EXPLANATION = ('The specification side is CPython\'s own AST (no formal semantics here, DESIGN.md section 9): C14_partial. Every name leaf (definition-ness), scope '
               '(functions/classes/imports directly in it), function/lambda (parameters, star kind, default, annotation, return annotation, generator-ness, '
               'return/raise statements), import (paths, level, aliases, star) and docstring of each program is compared with ast.parse of the running interpreter.')
LEVEL_TEXT = EXPLANATION
ASSUMPTIONS = ['column offsets compared on pure-ASCII programs only (ast offsets are UTF-8 bytes)', 'grammar 3.12 judged by the running CPython 3.12']

GV = '%d.%d' % sys.version_info[:2]


def ast_bindings(tree):
    """(line, col, name) of every occurrence that binds or deletes a name"""
    out = set()
    for n in ast.walk(tree):
        if isinstance(n, ast.Name) and isinstance(n.ctx, (ast.Store, ast.Del)):
            out.add((n.lineno, n.col_offset, n.id))
        elif isinstance(n, ast.arg):
            out.add((n.lineno, n.col_offset, n.arg))
        elif isinstance(n, ast.Attribute) and isinstance(n.ctx, (ast.Store, ast.Del)):
            out.add((n.end_lineno, n.end_col_offset - len(n.attr), n.attr))
    return out


def ast_loads(tree):
    return set((n.lineno, n.col_offset, n.id) for n in ast.walk(tree) if isinstance(n, ast.Name) and isinstance(n.ctx, ast.Load))


def direct(body_owner, kinds):
    """nodes of `kinds` directly in the scope of body_owner (not inside nested function/class/lambda scopes)"""
    out = []

    def rec(n, top):
        for c in ast.iter_child_nodes(n):
            if isinstance(c, kinds):
                out.append(c)
            if isinstance(c, (ast.FunctionDef, ast.AsyncFunctionDef, ast.ClassDef, ast.Lambda)):
                continue
            rec(c, False)
    rec(body_owner, True)
    return out


def scope_stmts(owner):
    """for functions/classes only the body is the scope (decorators, defaults, bases belong to the enclosing scope)"""
    if isinstance(owner, ast.Module):
        return owner
    m = ast.Module(body=list(owner.body), type_ignores=[])
    return m


def compare(code, m, tree):
    lines = code.split('\n')
    # ---- definitions
    names = {}
    for k, lst in m.get_used_names().items():
        for nm in lst:
            names[(nm.line, nm.column, nm.value)] = nm
    for key in ast_bindings(tree):
        nm = names.get(key)
        if nm is None:
            continue        # keyword-only markers etc. never get here; positions of decorated names are identical
        if not nm.is_definition(include_setitem=False) and not nm.is_definition(include_setitem=True):
            anc = []
            p = nm.parent
            while p is not None and len(anc) < 4:
                anc.append(p.type)
                p = p.parent
            return 'C14:binding-occurrence-not-a-definition:' + '>'.join(anc)
    for key in ast_loads(tree):
        nm = names.get(key)
        if nm is not None and nm.is_definition():
            return 'C14:load-occurrence-reported-as-definition:' + nm.parent.type
    # def / class names, import bindings, except-as
    for n in ast.walk(tree):
        if isinstance(n, (ast.FunctionDef, ast.AsyncFunctionDef, ast.ClassDef)):
            cands = [x for (l, c, v), x in names.items() if v == n.name and x.parent.type in ('funcdef', 'classdef') and x.parent.name is x]
            if not any(x.is_definition() for x in cands):
                return 'C14:def-or-class-name-not-a-definition'
        if isinstance(n, ast.ExceptHandler) and n.name:
            cands = [x for (l, c, v), x in names.items() if v == n.name and l >= n.lineno and x.parent.type == 'except_clause']
            if cands and not any(x.is_definition() for x in cands):
                return 'C14:except-as-name-not-a-definition'
    # ---- scopes, functions
    pscopes = [m] + [s for s in walk_scopes(m)]
    ascopes = [tree] + [n for n in ast.walk(tree) if isinstance(n, (ast.FunctionDef, ast.AsyncFunctionDef, ast.ClassDef))]
    akey = {}
    for s in ascopes[1:]:
        akey.setdefault((type(s) is ast.ClassDef, s.name, s.lineno if not s.decorator_list else None), []).append(s)
    for ps in pscopes:
        if ps.type == 'file_input':
            a = tree
        else:
            # match by (kind, name, line of the def/class keyword)
            kw = ps.children[0] if ps.children[0].type == 'keyword' else None
            cands = [s for s in ascopes[1:] if s.name == ps.name.value and (type(s) is ast.ClassDef) == (ps.type == 'classdef')
                     and def_line(s, lines) == ps.name.line]
            if len(cands) != 1:
                continue
            a = cands[0]
        body = scope_stmts(a)
        af = sorted(x.name for x in direct(body, (ast.FunctionDef, ast.AsyncFunctionDef)))
        ac = sorted(x.name for x in direct(body, ast.ClassDef))
        ai = len(direct(body, (ast.Import, ast.ImportFrom)))
        if ps.type == 'lambdef':
            continue
        if sorted(f.name.value for f in ps.iter_funcdefs()) != af:
            return 'C14:iter_funcdefs-differs'
        if sorted(c.name.value for c in ps.iter_classdefs()) != ac:
            return 'C14:iter_classdefs-differs'
        if len(list(ps.iter_imports())) != ai:
            return 'C14:iter_imports-differs'
        if ps.type == 'funcdef':
            r = compare_function(ps, a)
            if r:
                return r
        # docstring
        doc = ps.get_doc_node()
        body0 = a.body[0] if a.body else None
        has = isinstance(body0, ast.Expr) and isinstance(body0.value, ast.Constant) and isinstance(body0.value.value, str)
        if has:
            # one plain string literal? (implicit concatenation / parentheses are outside the claim)
            seg = ast.get_source_segment(code, body0.value)
            plain = seg is not None and plain_single_literal(seg) and body0.col_offset == body0.value.col_offset
            if plain and doc is None:
                return 'C14:docstring-not-reported'
        elif doc is not None:
            return 'C14:docstring-reported-without-docstring'
    # ---- imports
    aimps = [n for n in ast.walk(tree) if isinstance(n, (ast.Import, ast.ImportFrom))]
    pimps = [n for n in preds.iter_nodes(m) if n.type in ('import_name', 'import_from')]
    if len(aimps) != len(pimps):
        return 'C14:import-count'
    aimps.sort(key=lambda n: (n.lineno, n.col_offset))
    pimps.sort(key=lambda n: n.start_pos)
    for a, p in zip(aimps, pimps):
        if isinstance(a, ast.ImportFrom):
            if p.type != 'import_from':
                return 'C14:import-kind'
            if p.level != a.level:
                return 'C14:import-level'
            star = any(al.name == '*' for al in a.names)
            if p.is_star_import() != star:
                return 'C14:import-star'
            mod = a.module.split('.') if a.module else []
            if not star:
                exp = sorted(tuple(mod + [al.name]) for al in a.names)
                got = sorted(tuple(x.value for x in path) for path in p.get_paths())
                if exp != got:
                    return 'C14:import-from-paths'
                if sorted(al.asname or al.name for al in a.names) != sorted(n.value for n in p.get_defined_names()):
                    return 'C14:import-from-defined-names'
            else:
                if [tuple(x.value for x in path) for path in p.get_paths()] != [tuple(mod)]:
                    return 'C14:import-star-paths'
        else:
            if p.type != 'import_name':
                return 'C14:import-kind'
            if p.level != 0:
                return 'C14:import-level'
            exp = sorted(tuple(al.name.split('.')) for al in a.names)
            got = sorted(tuple(x.value for x in path) for path in p.get_paths())
            if exp != got:
                return 'C14:import-name-paths'
            if sorted(al.asname or al.name.split('.')[0] for al in a.names) != sorted(n.value for n in p.get_defined_names()):
                return 'C14:import-name-defined-names'
    # ---- lambdas: parameters
    alams = sorted([n for n in ast.walk(tree) if isinstance(n, ast.Lambda)], key=lambda n: (n.lineno, n.col_offset))
    plams = sorted([n for n in preds.iter_nodes(m) if n.type == 'lambdef'], key=lambda n: n.start_pos)
    if len(alams) == len(plams):
        for a, p in zip(alams, plams):
            r = compare_params(p.get_params(), a.args)
            if r:
                return r + ':lambda'
    return None


def def_line(s, lines):
    # line of the name of a def/class (first line of the statement proper, after decorators)
    l = s.lineno
    return l


def plain_single_literal(seg):
    try:
        import tokenize, io
        toks = [t for t in tokenize.generate_tokens(io.StringIO(seg).readline) if t.type not in (tokenize.NEWLINE, tokenize.NL, tokenize.ENDMARKER)]
        return len(toks) == 1 and toks[0].type == tokenize.STRING and not toks[0].string.lstrip('rRuUbB')[:1] in ('f', 'F') \
            and 'f' not in toks[0].string[:toks[0].string.find(toks[0].string.lstrip('rRuUbBfF')[:1])].lower()
    except Exception:
        return False


def walk_scopes(n):
    for c in getattr(n, 'children', []):
        if c.type in ('funcdef', 'classdef'):
            yield c
        yield from walk_scopes(c)


def compare_params(pparams, aargs):
    exp = []
    posonly = list(aargs.posonlyargs)
    pos = list(aargs.args)
    defaults = [None] * (len(posonly) + len(pos) - len(aargs.defaults)) + list(aargs.defaults)
    for a, d in zip(posonly + pos, defaults):
        exp.append((a.arg, 0, d is not None, a.annotation is not None))
    if aargs.vararg:
        exp.append((aargs.vararg.arg, 1, False, aargs.vararg.annotation is not None))
    for a, d in zip(aargs.kwonlyargs, aargs.kw_defaults):
        exp.append((a.arg, 0, d is not None, a.annotation is not None))
    if aargs.kwarg:
        exp.append((aargs.kwarg.arg, 2, False, aargs.kwarg.annotation is not None))
    got = [(p.name.value, p.star_count, p.default is not None, p.annotation is not None) for p in pparams]
    if got != exp:
        return 'C14:parameters-differ'
    return None


def compare_function(ps, a):
    r = compare_params(ps.get_params(), a.args)
    if r:
        return r
    if (ps.annotation is not None) != (a.returns is not None):
        return 'C14:return-annotation'
    body = scope_stmts(a)
    ay = direct(body, (ast.Yield, ast.YieldFrom))
    if ps.is_generator() != bool(ay):
        return 'C14:is_generator'
    if len(list(ps.iter_return_stmts())) != len(direct(body, ast.Return)):
        return 'C14:iter_return_stmts'
    if len(list(ps.iter_raise_stmts())) != len(direct(body, ast.Raise)):
        return 'C14:iter_raise_stmts'
    return None


def judge(code):
    if not code.isascii() or '\r' in code or '\x0c' in code:
        return 'skip'
    import warnings
    try:
        with warnings.catch_warnings():
            warnings.simplefilter('ignore')
            tree = ast.parse(code)
    except Exception:
        return 'skip'
    g = parso.load_grammar(version=GV)
    m = g.parse(code)
    if any(n.type in ('error_node', 'error_leaf') for n in preds.iter_nodes(m)):
        return 'skip'
    return compare(code, m, tree)


def recheck(replay, text):
    r = judge(text)
    return None if r == 'skip' else r


def doc_forms():
    """every string prefix (all spellings) x quote style as the first statement of a module / function / class / one-line body,
    and as a later statement: docstring or not must agree with ast.get_docstring"""
    import itertools
    out = []
    prefixes = set()
    for base_ in ['', 'r', 'u', 'b', 'br', 'rb', 'f', 'fr', 'rf']:
        for combo in itertools.product(*[(c, c.upper()) for c in base_]):
            prefixes.add(''.join(combo))
    for pfx in sorted(prefixes):
        for q in ("'", '"', "'" * 3, '"' * 3):
            lit = pfx + q + 'doc' + q
            progs = [lit + '\nx = 1\n',
                     'def f(a):\n    ' + lit + '\n    return a\n',
                     'class K:\n    ' + lit + '\n    y = 2\n',
                     'def g(): ' + lit + '\n',
                     'async def h():\n    ' + lit + '\n',
                     'class L: ' + lit + '; z = 3\n',
                     'import os\n' + lit + '\n',
                     'def k():\n    pass\n    ' + lit + '\n',
                     '# comment\n\n' + lit + '\n',
                     'class M:\n    def m(self):\n        ' + lit + '\n        return 1\n']
            for j, pr in enumerate(progs):
                out.append(('docform:%s:%s:%d' % (pfx, q, j), pr))
    return out


def run(ctx, b, drv):
    pend = base.Pending(ctx)
    base.obligations(ctx, b, pend, ['Engine.v'])
    base.mismatches(ctx, pend, streams.run_parse(ctx, base.scale(ctx, 600), drv, kinds=['valid', 'mutate', 'semantic']), None)
    r = gens.rng(ctx.seed, 'c14', 0)
    nfiles = 25 if ctx.tier == 'quick' else 400
    ngen = 600 if ctx.tier == 'quick' else 8000
    srcs = list(refpy.stdlib_files(GV, nfiles, r))
    for i in range(ngen):
        kind, code = gens.text_case(ctx.seed, 'c14', i, ['valid', 'mutate', 'semantic', 'oneliner'])
        srcs.append(('gen:%s:%d' % (kind, i), code))
    for i in range(ngen):
        srcs.append(('derived:%d' % i, gens.derived(gens.rng(ctx.seed, 'derived-C14', i), GV)))
    srcs.extend(doc_forms())
    srcs.extend(('corpus:%d' % i, c) for i, c in enumerate(gens.SEMANTIC + gens.TARGETS))
    used = 0
    for name, code in srcs:
        ctx.count('c14-programs')
        try:
            sig = judge(code)
        except RecursionError:
            continue
        except Exception as e:
            sig = preds.crash_sig(e)
        if sig == 'skip':
            continue
        used += 1
        ctx.nontrivial(('c14', code))
        if sig:
            ctx.violation(sig, dict(kind='input', version=GV, source=name, input_text=code if len(code) < 5000 else None, observed=sig))
    ctx.cov['programs_compared'] = used
    ctx.sample(dict(stream='c14', program=srcs[-1][1][:200]))
    pend.flush()
    ctx.cov['rule'] = 'standard-library files + generated valid/mutated programs that ast.parse accepts and parso parses without error nodes (ASCII only); distinct = distinct program'
