from harness.props import base
from harness import preds, gens
LEVEL = 'proof'
VFILES = ['Tree.v', 'Nav.v', 'Properties/C11.v']
TECHNIQUE = 'Coq theorems on a zipper model of the navigation functions and of the binary-search position lookup (all trees) + model/implementation correspondence + predicate search'
EXPLANATION = ('Nav.v models get_next_leaf/get_previous_leaf/get_first_leaf/get_last_leaf on a zipper (the parent/children data the code walks) and '
               'get_leaf_for_position with its binary search. Proved for ALL trees: next/previous leaf are successor/predecessor in the in-order leaf list; '
               'first/last leaf; the lookup returns the first leaf not ending before the position (None on a prefix when prefixes are excluded) whenever leaf '
               'ends are monotone. The nav stream ties the extracted functions to the implementation on every leaf and sampled positions; siblings, '
               'search_ancestor, parent pointers and range rejection are checked by the predicate only.')
LEVEL_TEXT = EXPLANATION


def pred(v, code, m):
    return preds.c11_nav(code, m, 300, gens.rng(0, 'c11pos', len(code)))


def run(ctx, b, drv):
    from harness import streams
    pend0 = base.Pending(ctx)
    base.mismatches(ctx, pend0, streams.run_nav(ctx, base.scale(ctx, 500), drv), None)
    pend0.flush()
    base.std_text_check(ctx, b, drv, VFILES, ['parse'], pred, 600, 800, 'c11')
    other_roots(ctx)


def other_roots(ctx):
    """trees whose root is not a module: expressions parsed with start_symbol='eval_input' - the same navigation facts, and the root reachable from every
    node and leaf"""
    import parso
    from harness import streams
    vs = streams.versions()
    exprs = [c for c in gens.COMPARISONS if not c.startswith('if ')]
    for i, code in enumerate(exprs):
        v = vs[(i + int(ctx.seed or 0)) % len(vs)]
        try:
            m = parso.load_grammar(version=v).parse(code, start_symbol='eval_input', error_recovery=False)
        except parso.ParserSyntaxError:
            continue
        except Exception as e:
            ctx.violation('C11:' + preds.crash_sig(e), dict(kind='input', version=v, input_text=code, start_symbol='eval_input'))
            continue
        ctx.count('c11-eval-input-trees')
        sig = None
        for n in preds.iter_nodes(m):
            if n.get_root_node() is not m:
                sig = 'C11:root_node:%s' % n.type
                break
        try:
            sig = sig or preds.c11_nav(code, m, 60, gens.rng(0, 'c11pos-eval', i))
        except Exception as e:
            sig = 'C11:' + preds.crash_sig(e)
        if sig:
            ctx.violation(sig, dict(kind='input', version=v, input_text=code, start_symbol='eval_input', observed=sig))
