from harness.props import base
from harness import preds, gens
LEVEL = 'other'
VFILES = ['Tree.v']
EXPLANATION = 'navigation and position lookup: predicate over every leaf and (sampled) every position of implementation trees.'


def pred(v, code, m):
    return preds.c11_nav(code, m, 300, gens.rng(0, 'c11pos', len(code)))


def run(ctx, b, drv):
    base.std_text_check(ctx, b, drv, VFILES, ['parse'], pred, 600, 800, 'c11')
