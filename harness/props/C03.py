from harness.props import base
from harness import preds, streams
LEVEL = 'proof'
VFILES = ['Lines.v', 'Tok.v', 'TokTiles.v', 'TokPos.v', 'Engine.v', 'ParseKeeps.v', 'EndPos.v', 'Properties/C03.v']
TECHNIQUE = ('Coq invariant proof over the Gallina port of tokenize_lines (every non-block token starts at the text offset its line/column names, '
             'BOM zero-width, for all inputs) + proof that the engine (incl. error recovery) keeps the text-carrying tokens as the leaves in order '
             '+ lines/tok/parse correspondence + positions_true predicate search')
EXPLANATION = ('Proved for all inputs on the pipeline model (Properties/C03.v): TokPos.tok_positions - whenever the guarded tokenizer model returns tokens, walking '
               'the stream from offset 0 every token other than the zero-width INDENT/DEDENT/ERROR_DEDENT starts, after its prefix, at the offset named by its '
               '(line, column) relative to the line list (lines numbered from start line, a BOM at the very start has zero width; multi-line strings and f-string '
               'parts keep the position where they started); ParseKeeps.parse_keeps_leaves - the text-carrying leaves of the tree returned by the engine are '
               'exactly the text-carrying tokens, in order, with the same value, prefix and position, in both modes including error recovery; together '
               'C03_leaf_positions; EndPos.end_pos_is_walk - the model of Leaf.end_pos (split_lines of the value) is the position reached by walking the value from the start position counting exactly \\n, \\r\\n and \\r as line breaks (tied to tree.py by the endpos stream); C03_endmarker_at_end_of_input - the end marker, last token of every stream, sits at offset len(text): on the last line of split_keep text (line count = number of line breaks + 1) at the column where the text ends. Not modelled in Coq (partial): start and end of nodes (computed properties in tree.py), the module end, '
               'get_start_pos_of_prefix, and the placement of zero-width error leaves; these are checked by the positions_true predicate on implementation trees '
               'and by the tok/parse correspondence (positions are part of the canonical token/tree form).')
LEVEL_TEXT = EXPLANATION


def pred(v, code, m):
    return preds.c03_positions(code, m)


def incremental_positions(ctx, n):
    """positions must also be true in trees returned by the incremental parser (diff_cache=True) after edit histories"""
    import parso
    from parso import cache as pcache
    from harness.props import C04
    from harness import gens
    vs = streams.versions()
    for i in range(n):
        r = gens.rng(ctx.seed, 'c03-hist', i)
        hist = C04.gen_history(r)
        v = r.choice(vs)
        g = parso.load_grammar(version=v)
        path = '/verif/.work/c03-virtual-%d.py' % i
        pcache.parser_cache.pop(g._hashed, None)
        for step, text in enumerate(hist):
            ctx.count('c03-history-steps')
            try:
                m = g.parse(text, diff_cache=True, path=path)
                sig = preds.c03_positions(text, m)
            except RecursionError:
                break
            except Exception as e:
                sig = preds.crash_sig(e)
            if sig:
                ctx.violation(sig + ':after-incremental-parse', dict(kind='history', version=v, steps=hist[:step + 1], failing_step=step))
                break
        pcache.parser_cache.pop(g._hashed, None)


def run(ctx, b, drv):
    incremental_positions(ctx, base.scale(ctx, 60))
    pend0 = base.Pending(ctx)
    base.mismatches(ctx, pend0, streams.run_endpos(ctx, base.scale(ctx, 600), drv), lambda case: 'C03:end_pos-is-not-the-walk-of-the-value')
    pend0.flush()
    base.std_text_check(ctx, b, drv, VFILES, ['lines', 'tok', 'parse'], pred, 2500, 1500, 'c03')
