from harness.props import base
from harness import preds
LEVEL = 'other'
VFILES = ['Lines.v', 'Tok.v', 'Engine.v']
EXPLANATION = 'positions: correspondence (positions are part of the canonical token/tree form) + positions_true predicate on implementation trees.'


def pred(v, code, m):
    return preds.c03_positions(code, m)


def run(ctx, b, drv):
    base.std_text_check(ctx, b, drv, VFILES, ['lines', 'tok', 'parse'], pred, 2500, 1500, 'c03')
