"""Helpers shared by the per-property check modules."""
import parso
from harness import gens, impl, preds, streams

N = {'quick': 3, 'thorough': 30}


def scale(ctx, n):
    return n * N[ctx.tier]


class Pending:
    """broken obligations / correspondence streams awaiting a concrete failing input"""

    def __init__(self, ctx):
        self.ctx = ctx
        self.items = []

    def add(self, sig, replay):
        self.items.append((sig, replay))

    def flush(self):
        """if the search produced no concrete failing input, report each broken obligation /
        stream as a violation with `no-failing-input-found`"""
        have_input = any(v['found_input'] for v in self.ctx.violations)
        for sig, rp in self.items:
            if have_input:
                rp = dict(rp, note='a concrete failing input was found by the search, see the other replay files of this run')
            self.ctx.violation(sig, rp, found_input=False)


def obligations(ctx, b, pend, vfiles, names=None):
    allok = True
    for vf in vfiles:
        ok = ctx.file_obligations(vf, b, names.get(vf) if names else None)
        if not ok:
            allok = False
            from harness.common import coq_error_for
            pend.add('obligation-failed:%s' % vf, dict(kind='theorem', obligation=vf, theorems=[o[0] for o in ctx.obligations if o[0].startswith(vf)],
                                                       coq_error=coq_error_for(vf, b['log'])))
    return allok


def mismatches(ctx, pend, mm, pred=None):
    """pred(case) -> signature or None evaluates the property on the implementation for the mismatching input"""
    ctx.cov['disagreements_checked'] = ctx.cov.get('disagreements_checked', 0) + len(mm)
    for m in mm[:50]:
        sig = None
        if pred is not None:
            try:
                sig = pred(m.case)
            except Exception as e:
                sig = preds.crash_sig(e)
        if sig:
            ctx.violation(sig, dict(m.replay(), kind='input'), found_input=True)
        else:
            pend.add('correspondence-broken:%s' % m.stream, dict(m.replay(), kind='theorem', obligation='correspondence stream `%s` (model vs implementation)' % m.stream))


def parse_impl(v, code):
    from harness import common
    with common.time_limit(20):
        return parso.load_grammar(version=v).parse(code)


def has_error(m):
    return any(n.type in ('error_node', 'error_leaf') for n in preds.iter_nodes(m))


def default_nontrivial(v, code, m):
    if m is None:
        return code if len(code) > 3 else None
    if has_error(m) or any(n.type.startswith('fstring') for n in preds.iter_nodes(m)):
        return (v >= '3.8', code)
    return None


def search_texts(ctx, n, pred, stream, kinds=None, versions=None, need_tree=True, nontrivial=default_nontrivial):
    """pred(v, code, m) -> signature or None, evaluated on the implementation"""
    vs = versions or streams.versions()
    from harness import common as _common
    for i in range(n):
        if _common.WD['timeouts'] >= 4:
            break            # the implementation keeps running into the time limit: the cases reported so far carry the inputs
        r = gens.rng(ctx.seed, stream + '-v', i)
        kind, code = gens.text_case(ctx.seed, stream, i, kinds)
        v = r.choice(vs)
        ctx.count(stream)
        m = None
        try:
            if need_tree:
                m = parse_impl(v, code)
            from harness import common
            with common.time_limit(60):
                sig = pred(v, code, m)
        except RecursionError:
            continue
        except Exception as e:
            sig = preds.crash_sig(e)
        key = nontrivial(v, code, m)
        if key is not None:
            ctx.nontrivial((stream, key))
        if i == 1:
            ctx.sample(dict(stream=stream, version=v, kind=kind, text=code[:200]))
        if sig:
            ctx.violation(sig, dict(kind='input', stream=stream, index=i, version=v, input_text=code,
                                    input_cps=[ord(c) for c in code], gen_kind=kind, observed=sig))


GEN_RULES = None


def rules_files():
    return ['gen/Rules_%s.v' % impl.vn(v) for v in streams.versions()]


def std_text_check(ctx, b, drv, vfiles, corr, pred, n_search, n_corr, stream, kinds=None, names=None, rule=''):
    """The common shape: obligations, correspondence streams `corr` (subset of tok/parse/lines/prefix/plans/re),
    and the property predicate `pred(v, code, m)` searched on generated inputs."""
    pend = Pending(ctx)
    obligations(ctx, b, pend, vfiles, names)

    def pred_case(case):
        v = case.get('version') or streams.versions()[-1]
        code = case.get('text', '')
        try:
            m = parse_impl(v, code)
        except Exception as e:
            return preds.crash_sig(e)
        return pred(v, code, m)
    for c in corr:
        if c == 'tok':
            mismatches(ctx, pend, streams.run_tok(ctx, scale(ctx, n_corr), drv), pred_case)
        elif c == 'parse':
            mismatches(ctx, pend, streams.run_parse(ctx, scale(ctx, n_corr), drv), pred_case)
        elif c == 'lines':
            mismatches(ctx, pend, streams.run_lines(ctx, scale(ctx, n_corr), drv), pred_case)
        elif c == 'prefix':
            mismatches(ctx, pend, streams.run_prefix(ctx, scale(ctx, n_corr), drv), None)
        elif c == 'plans':
            mismatches(ctx, pend, streams.run_plans(ctx, drv), None)
        elif c == 're':
            mismatches(ctx, pend, streams.run_re(ctx, scale(ctx, n_corr), drv), None)
    search_texts(ctx, scale(ctx, n_search), pred, stream, kinds)
    pend.flush()
    ctx.cov['rule'] = rule or ('inputs are pure functions of (seed, stream, index) over generators garbage/lines/oneliner/valid/mutate/corpus '
                               '(harness/gens.py) x 9 grammar versions; a case counts as non-trivial when the resulting tree/token stream has an '
                               'error node/leaf, an f-string, INDENT or ERRORTOKEN; distinct = distinct canonical answer')
