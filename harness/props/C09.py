from harness.props import base
from harness import preds
LEVEL = 'other'
VFILES = ['RegexFacts.v', 'Tok.v', 'Prefix.v']
EXPLANATION = 'tokenizer tiling/positions/balance/purity and prefix splitting: tok + prefix + re correspondence, predicates on implementation output.'


def pred(v, code, m):
    return preds.c09_tokens(v, code) or preds.c09_split(m)


def run(ctx, b, drv):
    base.std_text_check(ctx, b, drv, VFILES, ['re', 'tok', 'prefix'], pred, 2500, 2500, 'c09')
