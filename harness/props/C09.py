from harness.props import base
from harness import preds
LEVEL = 'proof'
VFILES = ['RegexFacts.v', 'Tok.v', 'TokFacts.v', 'TokTiles.v', 'TokShape.v', 'TokBlockPos.v', 'TokPos.v', 'Prefix.v', 'PrefixTiles.v', 'Properties/C09.v']
TECHNIQUE = 'Coq invariant proof over the Gallina port of tokenize_lines (token stream tiles the input; one end marker; zero-width balanced INDENT/DEDENT; for all inputs) + regenerated regex tables with a shape obligation + tok/prefix/re correspondence + predicate search'
EXPLANATION = ('Proved for all inputs (TokTiles.tok_tiles, instantiated in Properties/C09.v with the regenerated token collections): whenever the guarded Gallina '
               'port of tokenize_lines returns tokens, the concatenation of prefix+string over the stream is the concatenation of the lines (and the text itself via '
               'split_keep_concat); and (TokShape.tok_shape) the stream is body ++ [ENDMARKER] with no end marker in body, every INDENT/DEDENT zero-width, and a depth walk that never goes negative and ends at 0 (balance over the whole stream and every prefix). Guards: at five places the model returns Err Guard where the Python code silently relies on f-string bookkeeping facts; the tok '
               'stream shows model = implementation (never Guard) on every generated input. Token start positions are proved too (TokPos.tok_positions, see C03; and TokBlockPos.tok_block_positions: every INDENT/DEDENT token carries the position of the next real token). split_prefix tiles the prefix whenever it returns parts (PrefixTiles.split_prefix_tiles, shape obligation on the regenerated prefix regex; model guard: an empty value only at the end). Prefix purity and prefix splitting '
               'are not proved (C09_partial): tok/prefix/re correspondence + predicates on implementation output; split_prefix has known finding F2.')
LEVEL_TEXT = EXPLANATION


def pred(v, code, m):
    return preds.c09_tokens(v, code) or preds.c09_split(m)


def run(ctx, b, drv):
    base.std_text_check(ctx, b, drv, VFILES, ['re', 'tok', 'prefix'], pred, 2500, 2500, 'c09')
