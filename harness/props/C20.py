from harness.props import base
from harness import preds
LEVEL = 'other'
VFILES = ['Prefix.v']
EXPLANATION = 'PEP8 normalizer: totality / well-formed issues / W292 / determinism searched on the implementation.'


def pred(v, code, m):
    return preds.c20_pep8(v, code, m)


def run(ctx, b, drv):
    base.std_text_check(ctx, b, drv, VFILES, ['prefix'], pred, 1500, 1000, 'c20')
