from harness.props import base
from harness import preds, streams
LEVEL = 'other'
VFILES = ['Prefix.v', 'Issues.v', 'Properties/C20.v']
EXPLANATION = 'PEP8 normalizer: totality / well-formed issues / W292 / determinism searched on the implementation.'


def pred(v, code, m):
    return preds.c20_pep8(v, code, m)


def _issues(g, m):
    from harness import preds as P
    try:
        return [(i.code, i.message, i.start_pos, i.end_pos) for i in g._get_normalizer_issues(m)]
    except RecursionError:
        return 'recursion'
    except Exception as e:
        return P.crash_sig(e)


def same_from_every_source(ctx, n):
    """the issue list is the same whether the tree came from a fresh parse, an incremental re-parse (diff_cache) or the cache
    (memory entry and pickle)"""
    import os, shutil, parso
    from parso import cache as pcache
    from harness.props import C04
    from harness import gens
    vs = streams.versions()
    root = '/verif/.work/c20-cache'
    for i in range(n):
        r = gens.rng(ctx.seed, 'c20-hist', i)
        hist = C04.gen_history(r)
        v = r.choice(vs)
        g = parso.load_grammar(version=v)
        path = '/verif/.work/c20-virtual-%d.py' % i
        pcache.parser_cache.pop(g._hashed, None)
        for step, text in enumerate(hist):
            ctx.count('c20-history-steps')
            try:
                fresh = _issues(g, g.parse(text))
                inc = _issues(g, g.parse(text, diff_cache=True, path=path))
            except RecursionError:
                break
            except Exception:
                break          # a failing incremental parse is C04's business
            if inc != fresh:
                ctx.violation('C20:issues-differ-after-incremental-parse', dict(kind='history', version=v, steps=hist[:step + 1], failing_step=step,
                                                                              fresh=str(fresh)[:300], incremental=str(inc)[:300]))
                break
        pcache.parser_cache.pop(g._hashed, None)
        # the cache: memory entry, then the pickle
        text = hist[-1]
        if any(0xD800 <= ord(ch) <= 0xDFFF for ch in text):
            continue           # a lone surrogate cannot be stored in a UTF-8 file: the cache part does not apply
        shutil.rmtree(root, ignore_errors=True)
        os.makedirs(root, exist_ok=True)
        f = os.path.join(root, 'm.py')
        with open(f, 'w', encoding='utf-8', newline='') as fh:
            fh.write(text)
        try:
            with open(f, encoding='utf-8', newline='') as fh:
                if fh.read() != text:
                    continue
            fresh = _issues(g, g.parse(text))
            a = _issues(g, g.parse(path=f, cache=True, cache_path=os.path.join(root, 'c')))
            bb = _issues(g, g.parse(path=f, cache=True, cache_path=os.path.join(root, 'c')))
            pcache.parser_cache.clear()
            c = _issues(g, g.parse(path=f, cache=True, cache_path=os.path.join(root, 'c')))
        except (RecursionError, UnicodeError):
            continue
        except Exception as e:
            from harness import preds as P
            ctx.violation('C20:cached-parse-raises:' + P.crash_sig(e), dict(kind='input', version=v, input_text=text))
            continue
        ctx.count('c20-cache-sources', 3)
        for name, got in (('first-cached-parse', a), ('memory-cache', bb), ('pickle', c)):
            if got != fresh:
                ctx.violation('C20:issues-differ-from-fresh-parse:' + name, dict(kind='input', version=v, input_text=text, fresh=str(fresh)[:300], got=str(got)[:300]))
                break
    shutil.rmtree(root, ignore_errors=True)


def run(ctx, b, drv):
    same_from_every_source(ctx, base.scale(ctx, 40))
    pend0 = base.Pending(ctx)
    base.mismatches(ctx, pend0, streams.run_issues(ctx, base.scale(ctx, 1500), drv), None)
    pend0.flush()
    base.std_text_check(ctx, b, drv, VFILES, ['prefix'], pred, 1500, 1000, 'c20')
    sweep(ctx)


def blank_line_layouts():
    """what may stand between two definitions: 0-3 blank lines, 0-2 comment lines, 0-2 blank lines after the comments; def / class / async def / decorated,
    at module level and inside a class (the blank-line rules report E301 / E302 / E303 / E304 from several branches at the same position)"""
    out = []
    heads = ['def g():\n%s    pass\n', 'class G:\n%s    pass\n', 'async def g():\n%s    pass\n', '@dec\n%sdef g():\n    pass\n']
    for before in range(4):
        for ncom in range(3):
            for after in range(3):
                if ncom == 0 and after:
                    continue
                for hi, head in enumerate(heads):
                    inner = ('\n' * after) if hi == 3 else ''
                    second = head % inner
                    gap = '\n' * before + '# helper\n' * ncom + ('' if hi == 3 else '\n' * after)
                    top = 'def f():\n    pass\n' + gap + second
                    out.append(top)
                    body = 'x = 1\n' + gap + second
                    out.append('class C:\n' + ''.join('    ' + l if l.strip() else l for l in body.splitlines(True)))
    return out


def sweep(ctx):
    """the comparison corpus (every operand shape around every comparison operator) and the near-miss programs, one grammar version per program"""
    import parso
    from harness import gens
    vs = streams.versions()
    for i, code in enumerate(gens.COMPARISONS + gens.SEMANTIC[:400] + blank_line_layouts()):
        v = vs[(i + int(ctx.seed or 0)) % len(vs)]
        ctx.count('c20-sweep')
        try:
            m = parso.load_grammar(version=v).parse(code)
            sig = pred(v, code, m)
        except RecursionError:
            continue
        except Exception as e:
            sig = preds.crash_sig(e)
        if sig:
            ctx.violation(sig, dict(kind='input', stream='c20-sweep', index=i, version=v, input_text=code, input_cps=[ord(c) for c in code], observed=sig))
