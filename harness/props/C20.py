from harness.props import base
from harness import preds, streams
LEVEL = 'other'
VFILES = ['Prefix.v', 'Issues.v', 'Properties/C20.v']
EXPLANATION = 'PEP8 normalizer: totality / well-formed issues / W292 / determinism searched on the implementation.'


def pred(v, code, m):
    return preds.c20_pep8(v, code, m)


def run(ctx, b, drv):
    pend0 = base.Pending(ctx)
    base.mismatches(ctx, pend0, streams.run_issues(ctx, base.scale(ctx, 1500), drv), None)
    pend0.flush()
    base.std_text_check(ctx, b, drv, VFILES, ['prefix'], pred, 1500, 1000, 'c20')
