from harness.props import base
from harness import preds
LEVEL = 'other'
VFILES = ['Engine.v', 'EngineSim.v', 'Properties/C07.v']
TECHNIQUE = 'Coq simulation proof between the strict and the recovering run of the engine model (accepting half) + parse correspondence in both modes + first-error search'
EXPLANATION = ('Proved on the Engine model for all tables and token lists: if strict parsing accepts, recovery takes the same steps and returns the identical tree '
               '(step simulation over add_token, _recovery_tokenize is the identity while no INDENT was dropped). C07_partial: absence of error nodes in that tree, '
               'the converse and the agreement on the first error token are decided by the parse correspondence in both modes and the first_error_agrees predicate.')
LEVEL_TEXT = EXPLANATION


def pred(v, code, m):
    return preds.c07_agree(v, code, m)


def run(ctx, b, drv):
    base.std_text_check(ctx, b, drv, VFILES, ['parse'], pred, 2500, 2500, 'c07')
