from harness.props import base
from harness import preds
LEVEL = 'proof'
VFILES = ['Engine.v', 'EngineSim.v', 'EngineErr.v', 'Properties/C07.v']
TECHNIQUE = ('Coq simulation proof between the strict and the recovering run of the engine model + invariant proof that error markers are created exactly '
             'where the strict run raises and are never lost + parse correspondence in both modes + first-error search')
EXPLANATION = ('Proved on the Engine model for all tables, start rules and token lists, and on the pipeline model for all versions and texts (C07_agree): if strict '
               'parsing accepts, recovery takes the same steps and returns the identical tree (step simulation over add_token; _recovery_tokenize is the identity while '
               'no INDENT was dropped) and that tree has no error node / error leaf (strict_no_error); if strict parsing raises its syntax error, every tree the recovering '
               'parser returns contains an error node or error leaf (syntax_error_marked: the marker is created in the recovery branch taken at that token and pop / '
               'convert_node / stack removal never lose one; convert_node(suite) drops only blank children - guard PGuard). C07_partial: that the token reported by the '
               'strict parser is the first error the recovering parser marks is decided by the parse correspondence in both modes and the first_error_agrees predicate.')
LEVEL_TEXT = EXPLANATION


def pred(v, code, m):
    return preds.c07_agree(v, code, m)


def run(ctx, b, drv):
    base.std_text_check(ctx, b, drv, VFILES, ['parse'], pred, 2500, 2500, 'c07')
