from harness.props import base
from harness import preds
LEVEL = 'other'
VFILES = ['Engine.v']
EXPLANATION = 'strict vs recovering parser: parse correspondence in both modes + first_error_agrees on the implementation.'


def pred(v, code, m):
    return preds.c07_agree(v, code, m)


def run(ctx, b, drv):
    base.std_text_check(ctx, b, drv, VFILES, ['parse'], pred, 2500, 2500, 'c07')
