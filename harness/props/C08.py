import ast as pyast
from harness.props import base
from harness import preds, gens, streams, impl, translator
from parso.pgen2 import generate_grammar
from parso.pgen2.generator import ReservedString
from parso.python.token import PythonTokenTypes as T

LEVEL = 'proof'
TECHNIQUE = ('verified checker in Coq (Brzozowski derivatives, theorem check_rule_sound) evaluated by vm_compute on the automata the running '
             'generator built for every rule of every shipped grammar; extracted checker + first-set reference on random EBNF grammars')
EXPLANATION = ('Exhaustive proof-level obligation for the shipped grammars: gen/Rules_<v>.v re-checks by vm_compute, with the checker whose soundness is '
               'the theorem C08_check_rule_sound, that each generated automaton accepts exactly the language of its EBNF right-hand side. '
               'The plan tables are recomputed by the Gallina model from the dumped automata and compared (plans stream, exhaustive), and compared '
               'with the first-set specification. For arbitrary grammars: random small EBNF texts, each certified individually by the extracted '
               'verified checker, LL(1) conflicts / left recursion must be rejected.')
LEVEL_TEXT = EXPLANATION

TERMS = ["'a'", "'b'", "'c'", "'+'", "'if'", 'NAME', 'NUMBER', 'STRING']


def gen_rhs(r, nts, depth):
    def item(d):
        k = r.random()
        if d <= 0 or k < 0.45:
            return r.choice(TERMS + nts * 2)
        if k < 0.6:
            return '[' + rhs(d - 1) + ']'
        if k < 0.72:
            return '(' + rhs(d - 1) + ')*'
        if k < 0.84:
            return '(' + rhs(d - 1) + ')+'
        if k < 0.92:
            return r.choice(TERMS + nts) + r.choice('*+')
        return '(' + rhs(d - 1) + ')'

    def items(d):
        return ' '.join(item(d) for _ in range(r.randint(1, 3)))

    def rhs(d):
        return ' | '.join(items(d) for _ in range(r.choice([1, 1, 2, 3])))
    return rhs(depth)


def gen_grammar(r):
    n = r.randint(1, 4)
    names = ['r%d' % i for i in range(n)]
    rules = []
    for i, nm in enumerate(names):
        # mostly refer to later rules (avoids left recursion most of the time)
        nts = names[i + 1:] if r.random() < 0.85 else names
        rules.append('%s: %s' % (nm, gen_rhs(r, nts, r.randint(0, 3))))
    return '\n'.join(rules) + '\n'


def enc_rx(a, lid):
    k = a[0]
    if k == 'sym':
        return [2, lid(a[1])]
    if k in ('seq', 'alt'):
        c = 3 if k == 'seq' else 4
        out = enc_rx(a[1][-1], lid)
        for x in reversed(a[1][:-1]):
            out = [c] + enc_rx(x, lid) + out
        return out
    if k == 'opt':
        return [4] + enc_rx(a[1], lid) + [1]
    if k == 'star':
        return [5] + enc_rx(a[1], lid)
    if k == 'plus':
        t = enc_rx(a[1], lid)
        return [3] + t + [5] + t
    raise ValueError(k)


def dfa_request(a, dfas, fuel=20000):
    labels = {}

    def lid(l):
        if l[:1] in ('"', "'"):
            l = repr(pyast.literal_eval(l))          # one spelling per terminal: 'x', "x" and '\x78' are the same token
        return labels.setdefault(l, len(labels) + 1)
    rx = enc_rx(a, lid)
    idx = {id(s): i for i, s in enumerate(dfas)}
    arcs = [(i, lid(l), idx[id(nx)]) for i, s in enumerate(dfas) for l, nx in s.arcs.items()]
    fin = [i for i, s in enumerate(dfas) if s.is_final]
    return 'dfa %d %s %d %s %d %s' % (fuel, ' '.join(map(str, rx)), len(arcs), ' '.join('%d %d %d' % x for x in arcs),
                                      len(fin), ' '.join(map(str, fin)))


# ---- Thompson reference (only used to produce a distinguishing word for the replay) ----
def thompson(a):
    states = []

    def new():
        states.append({'eps': [], 'arcs': []})
        return len(states) - 1

    def build(a):
        k = a[0]
        if k == 'sym':
            s = new(); e = new(); states[s]['arcs'].append((a[1], e)); return s, e
        if k == 'seq':
            s, e = build(a[1][0])
            for x in a[1][1:]:
                s2, e2 = build(x); states[e]['eps'].append(s2); e = e2
            return s, e
        if k == 'alt':
            s = new(); e = new()
            for x in a[1]:
                s2, e2 = build(x); states[s]['eps'].append(s2); states[e2]['eps'].append(e)
            return s, e
        s = new(); e = new(); s2, e2 = build(a[1])
        states[s]['eps'].append(s2); states[e2]['eps'].append(e)
        if k in ('opt', 'star'):
            states[s]['eps'].append(e)
        if k in ('star', 'plus'):
            states[e2]['eps'].append(s2)
        return s, e
    s, e = build(a)
    return states, s, e


def closure(states, S):
    S = set(S); st = list(S)
    while st:
        x = st.pop()
        for y in states[x]['eps']:
            if y not in S:
                S.add(y); st.append(y)
    return frozenset(S)


def distinguishing_word(a, dfas):
    states, s, e = thompson(a)
    start = (closure(states, [s]), dfas[0])
    seen = {(start[0], id(start[1])): ()}
    todo = [start]
    while todo:
        S, d = todo.pop(0)
        w = seen[(S, id(d))]
        f1 = e in S
        f2 = d is not None and d.is_final
        if f1 != f2:
            return dict(word=list(w), rule_accepts=f1, automaton_accepts=f2)
        labels = set(l for x in S for (l, _) in states[x]['arcs'])
        if d is not None:
            labels |= set(d.arcs)
        for l in sorted(labels):
            S2 = closure(states, [y for x in S for (l2, y) in states[x]['arcs'] if l2 == l])
            d2 = d.arcs.get(l) if d is not None else None
            if not S2 and d2 is None:
                continue
            k = (S2, id(d2))
            if k not in seen:
                seen[k] = w + (l,)
                todo.append((S2, d2))
    return None


# ---- first-set / plan specification -------------------------------------------------
def tname(t):
    return ('R:' + t.value) if isinstance(t, ReservedString) else t.name


def label_token(l):
    if l[0].isalpha():
        return l
    return 'R:' + pyast.literal_eval(l)


def spec_plans(dfas_by_rule):
    """returns ('ok', {state id: {token: (next id, [push ids])}}) or ('error', kind)"""
    first = {}

    def calc(A, visiting):
        if A in first:
            return first[A]
        if A in visiting:
            raise LookupError('left-recursion')
        res = {}
        s0 = dfas_by_rule[A][0]
        for l, nx in s0.arcs.items():
            if l in dfas_by_rule:
                for t, ch in calc(l, visiting | {A}).items():
                    if t in res:
                        raise KeyError('conflict')
                    res[t] = [nx] + ch
            else:
                t = label_token(l)
                if t in res:
                    raise KeyError('conflict')
                res[t] = [nx]
        first[A] = res
        return res
    try:
        for A in dfas_by_rule:
            calc(A, frozenset())
    except LookupError:
        return 'error', 'left-recursion'
    except KeyError:
        return 'error', 'conflict'
    plans = {}
    for A, dfas in dfas_by_rule.items():
        for s in dfas:
            d = {}
            for l, nx in s.arcs.items():
                if l in dfas_by_rule:
                    for t, ch in first[l].items():
                        if t in d:
                            return 'error', 'conflict'
                        d[t] = (id(nx), [id(x) for x in ch])
                else:
                    t = label_token(l)
                    if t in d:
                        return 'error', 'conflict'
                    d[t] = (id(nx), [])
            plans[id(s)] = d
    return 'ok', plans


def impl_plans(pg):
    out = {}
    for A, dfas in pg.nonterminal_to_dfas.items():
        for s in dfas:
            out[id(s)] = {tname(t): (id(p.next_dfa), [id(x) for x in p.dfa_pushes]) for t, p in s.transitions.items()}
    return out


def check_grammar_text(text, drv, ctx, stream, index):
    """returns violation signature or None; certifies each automaton with the extracted verified checker"""
    rules = translator.parse_ebnf(text)
    try:
        pg = generate_grammar(text, T)
        err = None
    except ValueError as e:
        pg = None
        err = str(e)
    except RecursionError:
        return None
    names = [n for n, _ in rules]
    if len(set(names)) < len(names):
        # a rule defined twice: the generator has to refuse (silently keeping the last definition drops a rule of the text)
        if pg is not None:
            return 'C08:duplicate-rule-accepted'
        ctx.nontrivial((stream, 'rejected', text))
        return None
    if pg is None:
        # must really be non-LL(1): decide on automata built without the conflict check
        from parso.pgen2 import generator as gen_mod
        from parso.pgen2.grammar_parser import GrammarParser
        d = {}
        for a, z in GrammarParser(text).parse():
            dfas = gen_mod._make_dfas(a, z)
            gen_mod._simplify_dfas(dfas)
            d[a.from_rule] = dfas
        st, _ = spec_plans(d)
        if st == 'ok':
            return 'C08:LL1-grammar-rejected'
        ctx.nontrivial((stream, 'rejected', text))
        return None
    reqs = [dfa_request(a, pg.nonterminal_to_dfas[name]) for name, a in rules]
    outs = drv.run(reqs, shards=1)
    for (name, a), o in zip(rules, outs):
        if o != 'true':
            w = distinguishing_word(a, pg.nonterminal_to_dfas[name])
            if w:
                return 'C08:automaton-language-differs'
            # the reference finds no difference: the checker ran out of fuel (it is sound, not complete); retry once
            o2 = drv.run([dfa_request(a, pg.nonterminal_to_dfas[name], fuel=3000000)], shards=1)[0]
            if o2 != 'true':
                ctx.cov['checker_fuel_exhausted'] = ctx.cov.get('checker_fuel_exhausted', 0) + 1
                return None
    st, sp = spec_plans(pg.nonterminal_to_dfas)
    if st == 'error':
        return 'C08:non-LL1-grammar-accepted:' + sp
    if sp != impl_plans(pg):
        return 'C08:plan-table-differs-from-first-set-specification'
    # the table that classifies NAME / OP tokens as keywords / operators holds exactly the string terminals of THIS text (whatever was generated before)
    import ast as _ast
    lits = set(_ast.literal_eval(val) for typ, val in translator.ebnf_lex(text) if typ == 'STR')
    if set(pg.reserved_syntax_strings) != lits:
        return 'C08:reserved-strings-differ-from-the-terminals-of-the-text'
    ctx.nontrivial((stream, text))
    return None


def shipped_witness(ctx, pend_vfile, v):
    """a concrete distinguishing word for a shipped grammar whose obligation failed"""
    import parso, os
    pdir = os.path.join(os.path.dirname(parso.__file__), 'python')
    text = open(os.path.join(pdir, 'grammar%s.txt' % impl.vn(v))).read()
    pg = parso.load_grammar(version=v)._pgen_grammar
    for name, a in translator.parse_ebnf(text):
        w = distinguishing_word(a, pg.nonterminal_to_dfas[name])
        if w:
            return dict(version=v, rule=name, **w)
    return None



def conflict_family():
    """grammars whose only FIRST/FIRST conflict sits at a chosen place: in the first or a later state of a rule, in the start rule or a
    sub-rule, between two terminals, a terminal and a nonterminal, two nonterminals (directly or through a chain of rules), after an
    optional / repeated part - each with an LL(1) twin that differs in one token and must be accepted"""
    out = []
    heads = ['', "'x' ", "'x' 'y' ", "NUMBER ", "'x' NUMBER* "]
    for tok, other in [('NAME', 'STRING'), ("'k'", "'j'")]:
        for head in heads:
            for twin in (False, True):
                t2 = other if twin else tok
                fam = [
                    # two terminals
                    "s: %s(%s 'p' | %s 'q')\n" % (head, tok, t2),
                    # terminal against nonterminal
                    "s: %s(a | %s 'q')\na: %s 'p'\n" % (head, t2, tok),
                    "s: %s(%s 'q' | a)\na: %s 'p'\n" % (head, t2, tok),
                    # two nonterminals
                    "s: %s(a | b)\na: %s 'p'\nb: %s 'q'\n" % (head, tok, t2),
                    # two nonterminals, one through a chain of rules
                    "s: %s(a | b)\na: c 'p'\nc: d\nd: %s\nb: %s 'q'\n" % (head, tok, t2),
                    # optional part followed by something that starts alike
                    "s: %s[a] b\na: %s 'p'\nb: %s 'q'\n" % (head, tok, t2),
                    "s: %sa* b\na: %s 'p'\nb: %s 'q'\n" % (head, tok, t2),
                    "s: %s[%s 'p'] b\nb: %s 'q'\n" % (head, tok, t2),
                    # the conflict in a sub-rule, not in the start rule
                    "s: 'z' m\nm: %s(a | b)\na: %s 'p'\nb: %s 'q'\n" % (head, tok, t2),
                    # three alternatives, conflict between the first and the last
                    "s: %s(a | 'w' | b)\na: %s 'p'\nb: %s 'q'\n" % (head, tok, t2),
                    # after a repetition of a group
                    "s: %s('c' 'd')* (a | b)\na: %s\nb: %s 'q'\n" % (head, tok, t2),
                ]
                out.extend(fam)
    # the same terminal spelled in two ways, a rule defined twice
    out += ["s: 'x' 'b' | \"x\" 'c'\n", "s: 'p' ('x' 'b' | \"x\" 'c')\n", "s: a | \"x\" 'c'\na: 'x' 'b'\n", "s: '\\x78' 'b' | 'x' 'c'\n", "s: \"x\" 'b'\n",
            "a: 'x' 'b'\na: 'y'\n", "s: a 'z'\na: 'x'\na: 'x' 'y'\n",
            # terminals whose spelling needs an escape: the reserved string is what the literal denotes
            "s: NAME '\\\\' NAME\n", "s: ('\\'\"' | '\\t')+ NAME\n", "s: '\\x5c' | '\\\\' NUMBER\n", "s: '\\n' 'a' | '\\t' 'b'\n", "s: \"it's\" | 'say \"x\"'\n"]
    return out


def run(ctx, b, drv):
    pend = base.Pending(ctx)
    base.obligations(ctx, b, pend, ['Deriv.v', 'DfaCheck.v', 'Properties/C08.v'])
    for v in streams.versions():
        vf = 'gen/Rules_%s.v' % impl.vn(v)
        ok = ctx.file_obligations(vf, b)
        if not ok:
            w = shipped_witness(ctx, vf, v)
            if w:
                ctx.violation('C08:shipped-automaton-language-differs:%s' % w['rule'], dict(kind='input', obligation=vf, **w))
            else:
                pend.add('obligation-failed:%s' % vf, dict(kind='theorem', obligation=vf + ':dfas_faithful_' + impl.vn(v)))
    base.mismatches(ctx, pend, streams.run_plans(ctx, drv), None)
    # shipped grammars: plan tables equal the first-set specification, no conflicts
    import parso
    for v in streams.versions():
        pg = parso.load_grammar(version=v)._pgen_grammar
        st, sp = spec_plans(pg.nonterminal_to_dfas)
        ok = st == 'ok' and sp == impl_plans(pg)
        ctx.add_obligation('spec:plan table of grammar %s = first-set specification, no token claimed twice' % v, ok)
        ctx.count('spec-plans', sum(len(x) for x in impl_plans(pg).values()))
        import ast as _ast, os as _os
        gtext = open(_os.path.join(_os.path.dirname(parso.__file__), 'python', 'grammar%s.txt' % impl.vn(v))).read()
        lits = set(_ast.literal_eval(val) for typ, val in translator.ebnf_lex(gtext) if typ == 'STR')
        rs_ok = set(pg.reserved_syntax_strings) == lits
        ctx.add_obligation('spec:reserved strings of grammar %s = string terminals of its text' % v, rs_ok)
        if not rs_ok:
            ctx.violation('C08:reserved-strings-differ-from-the-terminals-of-the-text', dict(kind='input', version=v,
                          extra=sorted(set(pg.reserved_syntax_strings) - lits), missing=sorted(lits - set(pg.reserved_syntax_strings))))
        if not ok:
            ctx.violation('C08:shipped-plan-table-differs-from-specification', dict(kind='input', version=v, status=st))
    # generation is a function of the text: the oldest grammar text generated again after all the others gives the same reserved strings and plans
    v0 = streams.versions()[0]
    import os as _os
    gtext0 = open(_os.path.join(_os.path.dirname(parso.__file__), 'python', 'grammar%s.txt' % impl.vn(v0))).read()
    pg0 = parso.load_grammar(version=v0)._pgen_grammar
    pg0b = generate_grammar(gtext0, T)
    st0b, sp0b = spec_plans(pg0b.nonterminal_to_dfas)      # (state numbering differs between two generations: each table is compared with its own specification)
    same = set(pg0.reserved_syntax_strings) == set(pg0b.reserved_syntax_strings) and st0b == 'ok' and sp0b == impl_plans(pg0b)
    ctx.add_obligation('spec:grammar %s generated again after the later grammars has the same tables' % v0, same)
    if not same:
        ctx.violation('C08:tables-depend-on-grammars-generated-before', dict(kind='history', version=v0,
                      steps=['load grammars %s' % ', '.join(streams.versions()), 'generate_grammar(grammar%s.txt)' % impl.vn(v0)],
                      extra=sorted(set(pg0b.reserved_syntax_strings) - set(pg0.reserved_syntax_strings))))
    n = 400 if ctx.tier == 'quick' else 12000
    for i in range(n):
        r = gens.rng(ctx.seed, 'pgen', i)
        text = gen_grammar(r)
        ctx.count('pgen')
        if i == 0:
            ctx.sample(dict(stream='pgen', grammar=text))
        try:
            sig = check_grammar_text(text, drv, ctx, 'pgen', i)
        except SyntaxError:
            continue
        if sig:
            ctx.violation(sig, dict(kind='input', stream='pgen', index=i, grammar=text, observed=sig))
    for i, text in enumerate(conflict_family()):
        ctx.count('pgen-family')
        try:
            sig = check_grammar_text(text, drv, ctx, 'pgen-family', i)
        except SyntaxError:
            continue
        if sig:
            ctx.violation(sig, dict(kind='input', stream='pgen-family', index=i, grammar=text, observed=sig))
    pend.flush()
    ctx.cov['rule'] = ('all rules/states of the shipped grammars exhaustively (obligations); a family of grammars with one FIRST/FIRST conflict at a chosen state / rule / pair of arcs and their LL(1) twins; random EBNF grammars with 1-4 rules, nesting <= 3; '
                       'non-trivial = grammar accepted and every automaton certified by the extracted verified checker, or rejected as non-LL(1) with the reference agreeing')
    ctx.cov['exhaustive_shipped'] = True
