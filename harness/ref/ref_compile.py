# Runs under any CPython 3.6+: JSON list of sources on stdin -> JSON list of booleans (compiles without error or warning-as-error)
import sys, json, warnings
warnings.simplefilter('ignore')
res = []
for s in json.load(sys.stdin):
    try:
        compile(s, '<c12>', 'exec')
        res.append(True)
    except BaseException:
        res.append(False)
json.dump(res, sys.stdout)
