# Runs under any CPython 3.6+: reads a JSON list of words on stdin, prints a JSON list with, per word, the list of
# [token-type-name, string] the reference tokenizer produces for the line `word\n` (NEWLINE / NL / ENDMARKER / ENCODING dropped),
# or null when it raises or reports an ERRORTOKEN (the word is then outside the claim).
import sys, tokenize, io, json, warnings


def canon(w):
    try:
        with warnings.catch_warnings():
            warnings.simplefilter('ignore')
            toks = list(tokenize.generate_tokens(io.StringIO(w + '\n').readline))
    except BaseException:
        return None
    out = []
    for t in toks:
        name = tokenize.tok_name[t.type]
        if name in ('NEWLINE', 'NL', 'ENDMARKER', 'ENCODING', 'INDENT', 'DEDENT', 'COMMENT'):
            continue
        if name == 'ERRORTOKEN':
            return None
        out.append([name, t.string])
    return out


if __name__ == '__main__':
    json.dump([canon(w) for w in json.load(sys.stdin)], sys.stdout)
