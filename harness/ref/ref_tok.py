# Runs under any CPython 3.6+: reads a JSON list of source texts on stdin, prints a JSON list with,
# per source, the canonical significant tokens of CPython's own tokenizer (or null if it rejects the text).
import sys, tokenize, io, json


TOKONLY = False


def canon(src):
    try:
        data = src.encode('utf-8')
        toks = list(tokenize.tokenize(io.BytesIO(data).readline))
        if not TOKONLY:
            compile(data, '<c10>', 'exec')     # the stricter domain: programs the reference compiles
    except BaseException:
        return None
    out = []
    i = 0
    n = len(toks)
    while i < n:
        t = toks[i]
        name = tokenize.tok_name[t.type]
        if name in ('ENCODING', 'COMMENT', 'NL'):
            i += 1
            continue
        if name == 'FSTRING_START':
            depth = 0
            j = i
            while j < n:
                nj = tokenize.tok_name[toks[j].type]
                if nj == 'FSTRING_START':
                    depth += 1
                if nj == 'FSTRING_END':
                    depth -= 1
                    if depth == 0:
                        break
                j += 1
            out.append(['STRING', None, t.start[0], t.start[1]])
            i = j + 1
            continue
        s = t.string
        if name in ('INDENT', 'DEDENT', 'ENDMARKER'):
            s = ''
        if name == 'ERRORTOKEN':
            return None
        out.append([name, s if name != 'STRING' else None, t.start[0], t.start[1]])
        i += 1
    return out


if __name__ == '__main__':
    srcs = json.load(sys.stdin)
    if srcs and srcs[0] == '\x00TOKONLY':
        TOKONLY = True          # domain of the property as stated: programs the reference TOKENIZES without error (it need not compile them)
        srcs = srcs[1:]
    json.dump([canon(s) for s in srcs], sys.stdout)
