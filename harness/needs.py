"""Named predicates on a replay that a known finding additionally requires, so that a
different input reaching the same symptom for a new reason is still reported."""
import re, importlib


def _text(replay):
    if 'input_text' in replay:
        return replay['input_text']
    return replay.get('case', {}).get('text', '')


def _rerun(replay, text):
    mod = importlib.import_module('harness.props.' + replay['property'])
    import parso
    v = replay.get('version') or replay.get('case', {}).get('version') or '3.10'
    try:
        m = parso.load_grammar(version=v).parse(text)
        return mod.pred(v, text, m)
    except Exception as e:
        from harness import preds
        return preds.crash_sig(e)


def formfeed_in_comment(replay):
    """F2: the input has a form feed inside a comment, and neutralising those form feeds makes this failure go away"""
    text = _text(replay)
    if not re.search(r'#[^\r\n]*\f', text):
        return False
    fixed = re.sub(r'#[^\r\n]*', lambda m: m.group(0).replace('\f', ' '), text)
    sig = _rerun(replay, fixed)
    return not (sig and 'split_prefix' in sig)


def fstring_error_node_v39(replay):
    """F10: grammar >= 3.9 and the unreported error node is inside / contains an f-string and its own first line carries the issue"""
    sig = replay.get('signature') or replay.get('observed') or ''
    return 'fstring=True v>=3.9=True ownline=True' in sig
