"""Named predicates on a replay that a known finding additionally requires, so that a
different input reaching the same symptom for a new reason is still reported."""
import re, importlib


def _text(replay):
    if 'input_text' in replay:
        return replay['input_text']
    return replay.get('case', {}).get('text', '')


def _rerun(replay, text):
    mod = importlib.import_module('harness.props.' + replay['property'])
    import parso
    v = replay.get('version') or replay.get('case', {}).get('version') or '3.10'
    try:
        m = parso.load_grammar(version=v).parse(text)
        return mod.pred(v, text, m)
    except Exception as e:
        from harness import preds
        return preds.crash_sig(e)


def formfeed_in_comment(replay):
    """F2: the input has a form feed inside a comment, and neutralising those form feeds makes this failure go away"""
    text = _text(replay)
    if not re.search(r'#[^\r\n]*\f', text):
        return False
    fixed = re.sub(r'#[^\r\n]*', lambda m: m.group(0).replace('\f', ' '), text)
    sig = _rerun(replay, fixed)
    return not (sig and 'split_prefix' in sig)


def fstring_error_node_v39(replay):
    """F10: grammar >= 3.9 and the unreported error node is inside / contains an f-string and its own first line carries the issue"""
    sig = replay.get('signature') or replay.get('observed') or ''
    return 'fstring=True v>=3.9=True ownline=True' in sig


def _gone(replay, r):
    """the failure named by the replay's signature no longer occurs on the neutralised input (another, differently named failure of the same
    program - a second defect in a composed input - is judged on its own when it is reported)"""
    if r is None:
        return True
    if not isinstance(r, str) or r == 'not-accepted':
        return False
    return r.split(':')[0] != str(replay.get('signature', '')).split(':')[0]


_BSL = r'(?:(?<=\n)|(?<=\r)|^)([ \t\f]*)\\(?:\r\n|\n|\r)[ \t\f]*'   # any of the three line ends, also after a lone CR


def _neutralise_backslash_only_lines(text):
    fixed = text
    for _ in range(50):          # several such lines in a row: each pass joins one of them with what follows
        nxt = re.sub(_BSL, lambda m: m.group(1), fixed)
        if nxt == fixed:
            break
        fixed = nxt
    return fixed


def _neutralise_formfeed_at_line_start(text):
    # CPython resets the column at a form feed: what counts is the white space after the last one
    return re.sub(r'(?m)^[ \t\f]*\f', '', text)


def _gone_without(replay, own, others):
    """the named failure disappears when the feature of this finding is neutralised - or, in an input composed of several programs, when the features of
    the other recorded tokenizer findings that the input also has are neutralised with it (a failure that survives all of that is a new one)"""
    mod = importlib.import_module('harness.props.' + replay['property'])
    if not hasattr(mod, 'recheck'):
        return True
    text = _text(replay)
    fixed = own(text)
    if _gone(replay, mod.recheck(replay, fixed)):
        return True
    for other in others:
        fixed2 = other(fixed)
        if fixed2 != fixed:
            fixed = own(fixed2)
            if _gone(replay, mod.recheck(replay, fixed)):
                return True
    return False


def backslash_only_line(replay):
    """F13: the input has a physical line that consists of white space and a backslash continuation only,
    and removing those lines' backslash-newline makes the failure go away"""
    if not re.search(_BSL, _text(replay)):
        return False
    return _gone_without(replay, _neutralise_backslash_only_lines, [_neutralise_formfeed_at_line_start])


def needs_pep701(replay):
    """F12: grammar >= 3.12 and the program is not accepted by CPython 3.11 (it needs PEP 701 f-string syntax)"""
    v = replay.get('version') or ''
    try:
        if tuple(map(int, v.split('.'))) < (3, 12):
            return False
    except ValueError:
        return False
    if 'accepted_by_3_11' in replay:
        return replay['accepted_by_3_11'] is False
    return False


def formfeed_at_line_start(replay):
    """F14: a form feed in the leading white space of a line, and removing those form feeds makes the failure go away"""
    if not re.search(r'(?m)^([ \t]*)\f+', _text(replay)):
        return False
    return _gone_without(replay, _neutralise_formfeed_at_line_start, [_neutralise_backslash_only_lines])


def global_after_import_path_name(replay):
    """F15: the reported name occurs in an import statement of the program"""
    sig = replay.get('signature', '')
    m = re.search(r"name '(\w+)' is (used prior|assigned to before)", sig)
    if not m:
        return False
    nm = m.group(1)
    text = _text(replay)
    for stmt in re.split(r'[\n;]', text):
        st = stmt.strip()
        if (st.startswith('import ') or st.startswith('from ')) and re.search(r'\b%s\b' % re.escape(nm), st):
            return True
    return False


def v36_await_identifier(replay):
    """F17: grammar 3.6 and the program uses await/async outside an async function (identifiers for CPython 3.6)"""
    return replay.get('version') == '3.6' and bool(re.search(r'\b(await|async)\b', _text(replay)))


def global_after_non_use_occurrence(replay):
    """F15: in the scope of the `global` statement that names the reported name, no variable occurrence (ast.Name) of that
    name precedes the statement - the only earlier occurrences are import statements, parameters of nested functions,
    attribute names or occurrences in other scopes - while the name does occur textually before it"""
    import ast, warnings
    sig = replay.get('signature', '')
    m = re.search(r"name '(\w+)' is (used prior|assigned to before)", sig)
    if not m:
        return False
    nm = m.group(1)
    text = _text(replay)
    try:
        with warnings.catch_warnings():
            warnings.simplefilter('ignore')
            tree = ast.parse(text)
    except Exception:
        return False
    SCOPES = (ast.FunctionDef, ast.AsyncFunctionDef, ast.ClassDef, ast.Lambda)

    def scope_nodes(scope):
        out = []

        def rec(n):
            for c in ast.iter_child_nodes(n):
                if isinstance(c, SCOPES):
                    # decorators, defaults, annotations and bases are evaluated in the enclosing scope
                    for part in list(getattr(c, 'decorator_list', [])) + list(getattr(c, 'bases', [])) + \
                            list(getattr(getattr(c, 'args', None), 'defaults', []) or []) + \
                            [d for d in (getattr(getattr(c, 'args', None), 'kw_defaults', []) or []) if d is not None]:
                        out.append(part)
                        rec(part)
                    continue
                out.append(c)
                rec(c)
        rec(scope)
        return out
    scopes = [tree] + [n for n in ast.walk(tree) if isinstance(n, SCOPES)]
    for sc in scopes:
        nodes = scope_nodes(sc)
        gls = [n for n in nodes if isinstance(n, ast.Global) and nm in n.names]
        if not gls:
            continue
        g0 = min(gls, key=lambda n: (n.lineno, n.col_offset))
        pos = (g0.lineno, g0.col_offset)
        if any(isinstance(n, ast.Name) and n.id == nm and (n.lineno, n.col_offset) < pos for n in nodes):
            continue
        g1 = max(gls, key=lambda n: (n.lineno, n.col_offset))      # the order check may be reported at any of them
        before = '\n'.join(text.split('\n')[:g1.lineno - 1] + [text.split('\n')[g1.lineno - 1][:g1.col_offset]])
        if re.search(r'\b%s\b' % re.escape(nm), before):
            return True
    return False


def backslash_before_brace(replay):
    """F19: the program has a backslash directly before '{' and removing those backslashes makes the failure go away"""
    text = _text(replay)
    if '\\{' not in text:
        return False
    fixed = text.replace('\\{', '{')
    mod = importlib.import_module('harness.props.' + replay['property'])
    if hasattr(mod, 'recheck'):
        return _gone(replay, mod.recheck(replay, fixed))
    return True


def barry_future_import(replay):
    """F21: the program imports barry_as_FLUFL from __future__ and without that feature the failure goes away"""
    text = _text(replay)
    if 'barry_as_FLUFL' not in text:
        return False
    fixed = text.replace('barry_as_FLUFL', 'division')
    mod = importlib.import_module('harness.props.' + replay['property'])
    if hasattr(mod, 'recheck'):
        return _gone(replay, mod.recheck(replay, fixed))
    return True


def nested_async_comprehension(replay):
    """F23: some `async for` of a [..] / {..} comprehension sits inside another comprehension, and making the inner
    comprehensions synchronous makes the failure go away"""
    import parso
    text = _text(replay)
    try:
        m = parso.load_grammar(version=replay.get('version', '3.10')).parse(text)
    except Exception:
        return False
    hit = False
    spans = []
    leaf = m.get_first_leaf()
    while leaf is not None:
        if leaf.type == 'keyword' and leaf.value == 'async' and leaf.parent.type == 'comp_for':
            cont = leaf.parent.parent
            while cont.type in ('sync_comp_for', 'comp_for', 'comp_if'):
                cont = cont.parent               # a later clause of the same comprehension
            is_genexp = cont.type == 'argument' or cont.type == 'testlist_comp' and cont.parent.children[0] == '('
            anc = cont.parent
            inside = False
            while anc is not None:
                if anc.type in ('comp_for', 'sync_comp_for', 'testlist_comp', 'dictorsetmaker', 'argument') and anc is not cont and \
                        any(getattr(c, 'type', '') in ('comp_for', 'sync_comp_for') for c in getattr(anc, 'children', [])):
                    inside = True
                if anc.type in ('funcdef', 'lambdef', 'classdef'):
                    break
                anc = anc.parent
            if not is_genexp and inside:
                hit = True
                spans.append(leaf.start_pos)
        leaf = leaf.get_next_leaf()
    if not hit:
        return False
    lines = text.splitlines(True)
    for (l, c) in sorted(spans, reverse=True):
        ln = lines[l - 1]
        lines[l - 1] = ln[:c] + ln[c + len('async '):] if ln[c:c + 6] == 'async ' else ln
    fixed = ''.join(lines)
    mod = importlib.import_module('harness.props.' + replay['property'])
    if hasattr(mod, 'recheck'):
        return _gone(replay, mod.recheck(replay, fixed))
    return True


def _ast_of(replay):
    import ast, warnings
    try:
        with warnings.catch_warnings():
            warnings.simplefilter('ignore')
            return ast.parse(_text(replay))
    except Exception:
        return None


def _scoped_walk(tree):
    """yields (node, chain of enclosing scope nodes, innermost first)"""
    import ast
    SC = (ast.FunctionDef, ast.AsyncFunctionDef, ast.Lambda, ast.ClassDef, ast.GeneratorExp, ast.ListComp, ast.SetComp, ast.DictComp)

    def rec(n, chain):
        for c in ast.iter_child_nodes(n):
            yield c, chain
            yield from rec(c, ([c] + chain) if isinstance(c, SC) else chain)
    yield from rec(tree, [])


def await_in_generator_expression(replay):
    """F44: an `await` whose innermost scope is a generator expression that is not inside an async function (CPython >= 3.7 makes the
    generator expression an asynchronous one and accepts)"""
    import ast
    t = _ast_of(replay)
    if t is None:
        return False
    for n, chain in _scoped_walk(t):
        if isinstance(n, ast.Await) and chain and isinstance(chain[0], ast.GeneratorExp):
            fn = next((s for s in chain if isinstance(s, (ast.FunctionDef, ast.AsyncFunctionDef, ast.Lambda))), None)
            if not isinstance(fn, ast.AsyncFunctionDef):
                return True
    return False


def yield_in_comprehension_before_38(replay):
    """F45: a `yield` inside a comprehension / generator expression under a grammar < 3.8 (CPython 3.6 / 3.7 compile it: the comprehension's
    own function scope becomes a generator; parso attributes the yield to the enclosing scope)"""
    import ast
    if tuple(map(int, replay.get('version', '3.10').split('.'))) >= (3, 8):
        return False
    t = _ast_of(replay)
    if t is None:
        return False
    for n, chain in _scoped_walk(t):
        if isinstance(n, (ast.Yield, ast.YieldFrom)) and chain and isinstance(chain[0], (ast.GeneratorExp, ast.ListComp, ast.SetComp, ast.DictComp)):
            return True
    return False


def walrus_in_lambda_in_class_comprehension(replay):
    """F46: an assignment expression in a comprehension with a lambda between it and the class body, in either nesting order (the lambda is a function scope: CPython accepts)"""
    import ast
    t = _ast_of(replay)
    if t is None:
        return False
    for n, chain in _scoped_walk(t):
        comps = (ast.GeneratorExp, ast.ListComp, ast.SetComp, ast.DictComp)
        if isinstance(n, ast.NamedExpr) and any(isinstance(s, comps) for s in chain):
            # between the assignment expression and the nearest class body (if any) there is a lambda: its scope, not the class, receives the name
            upto = next((k for k, s in enumerate(chain) if isinstance(s, ast.ClassDef)), len(chain))
            if any(isinstance(s, ast.Lambda) for s in chain[:upto]):
                return True
    return False


_BREAK_KEYWORDS = ('import', 'class', 'def', 'try', 'except', 'finally', 'while', 'with', 'return', 'continue', 'break', 'del', 'pass', 'global', 'assert', 'nonlocal')


def statement_cut_off_by_bracket_break(replay):
    """F52: the tree holds a keyword at which the tokenizer gives up an unclosed bracket (import, class, def, try, ... at the start of a line, as keyword or
    as error leaf) such that, going back from it, there is before any NEWLINE leaf an opening bracket that is not closed - and no unterminated
    single-quoted f-string, which ends with its line and whose open field is therefore no bracket that is still open on the following lines"""
    import parso
    text = _text(replay)
    v = replay.get('version') or replay.get('case', {}).get('version') or '3.10'
    m = parso.load_grammar(version=v).parse(text)
    triple = ("'''", '"""')

    def broken_at(kw):
        l = kw.get_previous_leaf()
        depth = fdepth = 0
        opened = False
        while l is not None:
            if l.type == 'newline':
                break
            if l.type == 'fstring_end':
                fdepth += 1
            elif l.type == 'fstring_start':
                if fdepth > 0:
                    fdepth -= 1
                elif not l.value.endswith(triple):
                    return False
                else:
                    opened = True
            elif l.type in ('operator', 'error_leaf') and l.value in (')', ']', '}'):
                depth += 1
            elif l.type in ('operator', 'error_leaf') and l.value in ('(', '[', '{'):
                if depth > 0:
                    depth -= 1
                else:
                    opened = True
            l = l.get_previous_leaf()
        return opened
    l = m.get_first_leaf()
    while l is not None:
        if l.type in ('keyword', 'error_leaf') and l.value in _BREAK_KEYWORDS and re.search(r'[\r\n]', l.prefix) and broken_at(l):
            return True
        l = l.get_next_leaf()
    return False


def twenty_nested_blocks(replay):
    """F54: the program nests 20 or more block statements - if / while / for / try / with, inside one function or at module level - by parso's own
    count; CPython allows 20 nested loop / try / with blocks (the 21st is refused) and does not count `if` at all"""
    import parso
    text = _text(replay)
    v = replay.get('version') or replay.get('case', {}).get('version') or '3.10'
    m = parso.load_grammar(version=v).parse(text)
    blocks = ('if_stmt', 'while_stmt', 'for_stmt', 'try_stmt', 'with_stmt')
    best = 0
    stack = [(m, 0)]
    while stack:
        n, d = stack.pop()
        if not hasattr(n, 'children'):
            continue
        if n.type in ('funcdef', 'classdef', 'lambdef'):
            d = 0
        if n.type in blocks:
            d += 1
            best = max(best, d)
        for c in n.children:
            stack.append((c, d))
    return best >= 20
