"""Named predicates on a replay that a known finding additionally requires, so that a
different input reaching the same symptom for a new reason is still reported."""
import re, importlib


def _text(replay):
    if 'input_text' in replay:
        return replay['input_text']
    return replay.get('case', {}).get('text', '')


def _rerun(replay, text):
    mod = importlib.import_module('harness.props.' + replay['property'])
    import parso
    v = replay.get('version') or replay.get('case', {}).get('version') or '3.10'
    try:
        m = parso.load_grammar(version=v).parse(text)
        return mod.pred(v, text, m)
    except Exception as e:
        from harness import preds
        return preds.crash_sig(e)


def formfeed_in_comment(replay):
    """F2: the input has a form feed inside a comment, and neutralising those form feeds makes this failure go away"""
    text = _text(replay)
    if not re.search(r'#[^\r\n]*\f', text):
        return False
    fixed = re.sub(r'#[^\r\n]*', lambda m: m.group(0).replace('\f', ' '), text)
    sig = _rerun(replay, fixed)
    return not (sig and 'split_prefix' in sig)


def fstring_error_node_v39(replay):
    """F10: grammar >= 3.9 and the unreported error node is inside / contains an f-string and its own first line carries the issue"""
    sig = replay.get('signature') or replay.get('observed') or ''
    return 'fstring=True v>=3.9=True ownline=True' in sig


def backslash_only_line(replay):
    """F13: the input has a physical line that consists of white space and a backslash continuation only,
    and removing those lines' backslash-newline makes the failure go away"""
    text = _text(replay)
    pat = r'(?m)^([ \t\f]*)\\\r?\n[ \t\f]*'
    if not re.search(pat, text):
        return False
    fixed = re.sub(pat, lambda m: m.group(1), text)
    mod = importlib.import_module('harness.props.' + replay['property'])
    if hasattr(mod, 'recheck'):
        return mod.recheck(replay, fixed) is None
    return True


def needs_pep701(replay):
    """F12: grammar >= 3.12 and the program is not accepted by CPython 3.11 (it needs PEP 701 f-string syntax)"""
    v = replay.get('version') or ''
    try:
        if tuple(map(int, v.split('.'))) < (3, 12):
            return False
    except ValueError:
        return False
    if 'accepted_by_3_11' in replay:
        return replay['accepted_by_3_11'] is False
    return False


def formfeed_at_line_start(replay):
    """F14: a form feed in the leading white space of a line, and removing those form feeds makes the failure go away"""
    text = _text(replay)
    pat = r'(?m)^([ \t]*)\f+'
    if not re.search(pat, text):
        return False
    fixed = re.sub(pat, lambda m: m.group(1), text)
    mod = importlib.import_module('harness.props.' + replay['property'])
    if hasattr(mod, 'recheck'):
        return mod.recheck(replay, fixed) is None
    return True


def global_after_import_path_name(replay):
    """F15: the reported name occurs in the module path of an import statement of the program"""
    sig = replay.get('signature', '')
    m = re.search(r"name '(\w+)' is used prior", sig)
    if not m:
        return False
    nm = m.group(1)
    text = _text(replay)
    return bool(re.search(r'(?m)^\s*(from\s+[.\w]*\b%s\b[.\w]*\s+import|import\s+[^\n]*\b\w+\.%s\b|import\s+[^\n]*\b%s\.\w)' % (nm, nm, nm), text))
